//! Sentence sampler driven by the same GrammarSpec data the corpus was rendered from.
use crate::spec::{Spec, Sym};
use simcore::Rng;

pub struct Sampler<'a> {
    pub spec: &'a Spec,
    /// minimal sentence length per nonterminal (usize::MAX = unproductive)
    pub min_len: Vec<usize>,
}

impl<'a> Sampler<'a> {
    pub fn new(spec: &'a Spec) -> Sampler<'a> {
        let n = spec.nts.len();
        let mut min_len = vec![usize::MAX; n];
        loop {
            let mut changed = false;
            for (i, nt) in spec.nts.iter().enumerate() {
                for p in &nt.prods {
                    let mut len = 0usize;
                    let mut ok = true;
                    for s in &p.syms {
                        match s {
                            Sym::T(_) => len += 1,
                            Sym::N(j) => {
                                if min_len[*j] == usize::MAX {
                                    ok = false;
                                    break;
                                }
                                len += min_len[*j];
                            }
                            Sym::Recover => {
                                ok = false;
                                break;
                            }
                            Sym::Star(_) | Sym::Opt(_) => {}
                            Sym::Plus(j) => {
                                if min_len[*j] == usize::MAX {
                                    ok = false;
                                    break;
                                }
                                len += min_len[*j];
                            }
                        }
                    }
                    if ok && len < min_len[i] {
                        min_len[i] = len;
                        changed = true;
                    }
                }
            }
            if !changed {
                break;
            }
        }
        Sampler { spec, min_len }
    }

    pub fn productive(&self, nt: usize) -> bool {
        self.min_len[nt] != usize::MAX
    }

    fn prod_min(&self, syms: &[Sym]) -> Option<usize> {
        let mut len = 0usize;
        for s in syms {
            match s {
                Sym::T(_) => len += 1,
                Sym::N(j) => {
                    if self.min_len[*j] == usize::MAX {
                        return None;
                    }
                    len += self.min_len[*j];
                }
                Sym::Recover => return None,
                Sym::Star(_) | Sym::Opt(_) => {}
                Sym::Plus(j) => {
                    if self.min_len[*j] == usize::MAX {
                        return None;
                    }
                    len += self.min_len[*j];
                }
            }
        }
        Some(len)
    }

    pub fn sentence(&self, rng: &mut Rng, nt: usize, budget: usize) -> Vec<usize> {
        let mut out = Vec::new();
        self.expand(rng, nt, budget, 0, &mut out);
        out
    }

    fn expand(&self, rng: &mut Rng, nt: usize, budget: usize, depth: usize, out: &mut Vec<usize>) {
        let prods: Vec<(usize, usize)> = self.spec.nts[nt].prods.iter().enumerate().filter_map(|(i, p)| self.prod_min(&p.syms).map(|m| (i, m))).collect();
        let remaining = budget.saturating_sub(out.len());
        let fitting: Vec<&(usize, usize)> = prods.iter().filter(|(_, m)| *m <= remaining).collect();
        let choice = if depth > 12 || fitting.is_empty() {
            *prods.iter().min_by_key(|(_, m)| *m).expect("productive nonterminal")
        } else {
            **rng.pick(&fitting)
        };
        for s in &self.spec.nts[nt].prods[choice.0].syms {
            match s {
                Sym::T(t) => out.push(*t),
                Sym::N(j) => self.expand(rng, *j, budget, depth + 1, out),
                Sym::Recover => {}
                Sym::Star(j) | Sym::Plus(j) | Sym::Opt(j) => {
                    if !self.productive(*j) {
                        continue;
                    }
                    let (lo, hi) = match s {
                        Sym::Star(_) => (0u64, 3u64),
                        Sym::Plus(_) => (1, 3),
                        _ => (0, 1),
                    };
                    let n = if depth > 12 { lo } else { rng.range(lo, hi) };
                    for _ in 0..n {
                        self.expand(rng, *j, budget, depth + 1, out);
                    }
                }
            }
        }
    }
}
