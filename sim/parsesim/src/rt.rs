//! Runtime side of the corpus grammars: the per-parse context (event log,
//! fault plan, counters), the fault-injecting token streams, and result
//! normalisation.  Everything here is "user code" from lalrpop's point of view.

use lalrpop_util::{ErrorRecovery, ParseError};
use std::cell::{Cell, RefCell};
use std::fmt::Debug;

#[derive(Clone, Copy, Debug, PartialEq, Eq)]
pub enum Tok {
    T0, T1, T2, T3, T4, T5, T6, T7, T8, T9, T10, T11, T12, T13, T14, T15, T16, T17, T18, T19, T20, T21, T22, T23,
    /// a token no grammar of the corpus maps (token_to_index fails)
    Alien,
}

pub const TOKS: [Tok; 24] = [
    Tok::T0, Tok::T1, Tok::T2, Tok::T3, Tok::T4, Tok::T5, Tok::T6, Tok::T7, Tok::T8, Tok::T9, Tok::T10, Tok::T11, Tok::T12, Tok::T13, Tok::T14, Tok::T15, Tok::T16,
    Tok::T17, Tok::T18, Tok::T19, Tok::T20, Tok::T21, Tok::T22, Tok::T23,
];

/// A location type whose `Default` is not a plausible position.
#[derive(Clone, Copy, Debug, PartialEq, Eq)]
pub struct Loc(pub i64);
impl Default for Loc {
    fn default() -> Loc {
        Loc(-777)
    }
}

#[derive(Clone, Debug, PartialEq, Eq)]
pub struct UserErr(pub u32);

#[derive(Clone, Debug, PartialEq, Eq)]
pub struct Node(pub u64);

#[derive(Clone, Debug, PartialEq, Eq)]
pub enum Ev {
    PullTok(usize, usize),
    PullErr(usize, u32),
    PullEnd(usize),
    /// a pull after the stream had already ended (must never happen)
    PullAfterEnd(usize),
    Act(u32, u64),
    ActF(u32, u64),
    ActErr(u32, u32),
    Rec(usize, String),
    Nested(String),
}

#[derive(Clone, Debug, Default, PartialEq)]
pub struct Plan {
    /// the stream yields Err(UserErr(id)) at this pull index
    pub stream_err: Option<(usize, u32)>,
    /// the j-th executed fallible action returns Err(UserErr(id))
    pub act_err: Option<(usize, u32)>,
    /// re-enter `parse` on the same parser inside the j-th action (C27)
    pub reenter_at: Option<usize>,
}

pub struct Ctx {
    pub log: RefCell<Vec<Ev>>,
    pub plan: Plan,
    pulls: Cell<usize>,
    fallible: Cell<usize>,
    acts: Cell<usize>,
    ended: Cell<bool>,
    pub yield_hook: Option<Box<dyn Fn()>>,
    pub reenter: Option<Box<dyn Fn() -> String>>,
}

fn mix(h: u64, v: u64) -> u64 {
    let mut z = (h ^ v).wrapping_add(0x9E3779B97F4A7C15);
    z = (z ^ (z >> 30)).wrapping_mul(0xBF58476D1CE4E5B9);
    z = (z ^ (z >> 27)).wrapping_mul(0x94D049BB133111EB);
    z ^ (z >> 31)
}

impl Ctx {
    pub fn new(plan: Plan) -> Ctx {
        Ctx { log: RefCell::new(Vec::new()), plan, pulls: Cell::new(0), fallible: Cell::new(0), acts: Cell::new(0), ended: Cell::new(false), yield_hook: None, reenter: None }
    }
    fn sched(&self) {
        if let Some(y) = &self.yield_hook {
            y();
        }
    }
    fn digest(&self, pid: u32, kids: &[Node]) -> u64 {
        let mut h = mix(0x1234, pid as u64);
        for k in kids {
            h = mix(h, k.0);
        }
        h
    }
    fn maybe_reenter(&self) {
        let n = self.acts.get();
        self.acts.set(n + 1);
        if self.plan.reenter_at == Some(n) {
            if let Some(f) = &self.reenter {
                let r = f();
                self.log.borrow_mut().push(Ev::Nested(r));
            }
        }
    }
    /// children of a repetition or an option, folded into one node (no event: not an action)
    pub fn fold(&self, kids: Vec<Node>) -> Node {
        Node(self.digest(0xfffe, &kids))
    }
    pub fn act(&self, pid: u32, kids: Vec<Node>) -> Node {
        self.sched();
        self.maybe_reenter();
        let d = self.digest(pid, &kids);
        self.log.borrow_mut().push(Ev::Act(pid, d));
        Node(d)
    }
    pub fn try_act(&self, pid: u32, kids: Vec<Node>) -> Result<Node, UserErr> {
        self.sched();
        self.maybe_reenter();
        let j = self.fallible.get();
        self.fallible.set(j + 1);
        if let Some((at, id)) = self.plan.act_err {
            if at == j {
                self.log.borrow_mut().push(Ev::ActErr(pid, id));
                return Err(UserErr(id));
            }
        }
        let d = self.digest(pid, &kids);
        self.log.borrow_mut().push(Ev::ActF(pid, d));
        Ok(Node(d))
    }
    /// The error value a failing action returns: chosen by the injected id among the variants a
    /// user action may legally produce (`User`, and non-`User` variants with empty or non-empty
    /// `expected`).  `wrapped_outcome` is what `parse` must then return, verbatim.
    pub fn wrap<L: Default, T>(&self, e: UserErr) -> ParseError<L, T, UserErr> {
        match e.0 % 4 {
            1 => ParseError::UnrecognizedEof { location: L::default(), expected: vec![] },
            2 => ParseError::UnrecognizedEof { location: L::default(), expected: vec![format!("planted-{}", e.0)] },
            3 => ParseError::InvalidToken { location: L::default() },
            _ => ParseError::User { error: e },
        }
    }
    pub fn rec<L: Debug, T: Debug, E: Debug>(&self, e: ErrorRecovery<L, T, E>) -> Node {
        let kind = match &e.error {
            ParseError::InvalidToken { .. } => "InvalidToken",
            ParseError::UnrecognizedEof { .. } => "UnrecognizedEof",
            ParseError::UnrecognizedToken { .. } => "UnrecognizedToken",
            ParseError::ExtraToken { .. } => "ExtraToken",
            ParseError::User { .. } => "User",
        };
        // the whole recovered error (variant, token, locations, `expected`) and the dropped tokens
        let text = format!("{kind}:{:?}:{:?}", e.error, e.dropped_tokens);
        let mut h = 0x51u64;
        for b in text.bytes() {
            h = mix(h, b as u64);
        }
        self.log.borrow_mut().push(Ev::Rec(e.dropped_tokens.len(), text));
        Node(h)
    }
    /// called by the token streams
    fn pull(&self, toks: &[Item]) -> Pulled {
        self.sched();
        let i = self.pulls.get();
        self.pulls.set(i + 1);
        if self.ended.get() {
            self.log.borrow_mut().push(Ev::PullAfterEnd(i));
            return Pulled::End;
        }
        if let Some((at, id)) = self.plan.stream_err {
            if at == i {
                self.log.borrow_mut().push(Ev::PullErr(i, id));
                return Pulled::Err(id);
            }
        }
        if i >= toks.len() {
            self.ended.set(true);
            self.log.borrow_mut().push(Ev::PullEnd(i));
            return Pulled::End;
        }
        self.log.borrow_mut().push(Ev::PullTok(i, toks[i].0));
        Pulled::Tok(i, toks[i].0)
    }
    pub fn pulls(&self) -> usize {
        self.pulls.get()
    }
}

enum Pulled {
    Tok(usize, usize),
    Err(u32),
    End,
}

/// One input token: index into the spec's terminal list (usize::MAX = alien token).
#[derive(Clone, Copy, Debug, PartialEq, Eq)]
pub struct Item(pub usize);

fn tok_of(t: usize) -> Tok {
    if t < TOKS.len() {
        TOKS[t]
    } else {
        Tok::Alien
    }
}

pub fn lo(i: usize) -> usize {
    10 * i + 3
}
pub fn hi(i: usize) -> usize {
    10 * i + 7
}

macro_rules! stream_fn {
    ($name:ident, $item:ty, $ok:expr, $err:expr) => {
        pub fn $name<'a>(ctx: &'a Ctx, toks: &'a [Item]) -> impl Iterator<Item = $item> + 'a {
            std::iter::from_fn(move || match ctx.pull(toks) {
                Pulled::Tok(i, t) => Some(($ok)(i, tok_of(t))),
                Pulled::Err(id) => ($err)(id),
                Pulled::End => None,
            })
        }
    };
}

// plain streams cannot carry an error: a planned stream error is never configured for them
stream_fn!(stream_loc_usize_plain, (usize, Tok, usize), |i, t| (lo(i), t, hi(i)), |_id| None);
stream_fn!(stream_loc_usize_result, Result<(usize, Tok, usize), UserErr>, |i, t| Ok((lo(i), t, hi(i))), |id| Some(Err(UserErr(id))));
stream_fn!(stream_loc_struct_plain, (Loc, Tok, Loc), |i, t| (Loc(lo(i) as i64), t, Loc(hi(i) as i64)), |_id| None);
stream_fn!(stream_loc_struct_result, Result<(Loc, Tok, Loc), UserErr>, |i, t| Ok((Loc(lo(i) as i64), t, Loc(hi(i) as i64))), |id| Some(Err(UserErr(id))));
stream_fn!(stream_noloc_plain, Tok, |_i, t| t, |_id| None);
stream_fn!(stream_noloc_result, Result<Tok, UserErr>, |_i, t| Ok(t), |id| Some(Err(UserErr(id))));

#[derive(Clone, Debug, PartialEq, Eq)]
pub enum Outcome {
    Ok(u64),
    InvalidToken(i64),
    Eof { loc: i64, expected: Vec<String> },
    Unrecognized { lo: i64, tok: String, hi: i64, expected: Vec<String> },
    Extra { lo: i64, tok: String, hi: i64 },
    User(u32),
}

/// what `parse` must return when the action error with this id was wrapped by `Ctx::wrap`;
/// `default_loc` is the normalised `Default` of the parser's location type
pub fn wrapped_outcome(id: u32, default_loc: i64) -> Outcome {
    match id % 4 {
        1 => Outcome::Eof { loc: default_loc, expected: vec![] },
        2 => Outcome::Eof { loc: default_loc, expected: vec![format!("planted-{id}")] },
        3 => Outcome::InvalidToken(default_loc),
        _ => Outcome::User(id),
    }
}

impl Outcome {
    pub fn kind(&self) -> &'static str {
        match self {
            Outcome::Ok(_) => "ok",
            Outcome::InvalidToken(_) => "invalid-token",
            Outcome::Eof { .. } => "unrecognized-eof",
            Outcome::Unrecognized { .. } => "unrecognized-token",
            Outcome::Extra { .. } => "extra-token",
            Outcome::User(_) => "user",
        }
    }
}

pub trait LocLike {
    fn to_i64(&self) -> i64;
}
impl LocLike for usize {
    fn to_i64(&self) -> i64 {
        *self as i64
    }
}
impl LocLike for Loc {
    fn to_i64(&self) -> i64 {
        self.0
    }
}
impl LocLike for () {
    fn to_i64(&self) -> i64 {
        -1
    }
}

fn norm<L: LocLike, T: Debug>(r: Result<Node, ParseError<L, T, UserErr>>) -> Outcome {
    match r {
        Ok(n) => Outcome::Ok(n.0),
        Err(ParseError::InvalidToken { location }) => Outcome::InvalidToken(location.to_i64()),
        Err(ParseError::UnrecognizedEof { location, expected }) => Outcome::Eof { loc: location.to_i64(), expected },
        Err(ParseError::UnrecognizedToken { token, expected }) => Outcome::Unrecognized { lo: token.0.to_i64(), tok: format!("{:?}", token.1), hi: token.2.to_i64(), expected },
        Err(ParseError::ExtraToken { token }) => Outcome::Extra { lo: token.0.to_i64(), tok: format!("{:?}", token.1), hi: token.2.to_i64() },
        Err(ParseError::User { error }) => Outcome::User(error.0),
    }
}

pub fn norm_ext<L: LocLike>(r: Result<Node, ParseError<L, Tok, UserErr>>) -> Outcome {
    norm(r)
}

pub fn norm_lex<'i>(r: Result<Node, ParseError<usize, lalrpop_util::lexer::Token<'i>, UserErr>>) -> Outcome {
    norm(r)
}
