//! System-under-test interface: one adapter per compiled public parser.
use crate::rt::{Ctx, Item, Outcome};

#[derive(Clone, Debug)]
pub struct Info {
    /// index into spec::all_variants()
    pub variant: usize,
    /// name of the public nonterminal this parser starts from
    pub start: &'static str,
}

pub trait Sut: Send + Sync {
    fn info(&self) -> Info;
    /// built-in lexer parsers
    fn parse_str(&self, ctx: &Ctx, input: &str) -> Outcome;
    /// extern-token parsers; shape 0 = plain items, 1 = Result items
    fn parse_toks(&self, ctx: &Ctx, toks: &[Item], shape: u8) -> Outcome;
}
