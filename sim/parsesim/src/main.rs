//! parsesim -- engine B: parser stream / thread simulator (DESIGN section 3).
#[allow(dead_code)]
mod spec {
    include!("../spec.rs");
}
mod c17;
mod c27;
mod rt;
mod sample;
mod sut;
#[allow(dead_code)]
mod corpus {
    include!(concat!(env!("OUT_DIR"), "/corpus.rs"));
}

use c17::{Bad, World};
use serde_json::{json, Value};
use simcore::{Evidence, Findings, Rng};
use std::collections::BTreeMap;
use std::time::Instant;

fn workers() -> usize {
    std::env::var("VERIF_WORKERS").ok().and_then(|s| s.parse().ok()).unwrap_or_else(|| std::thread::available_parallelism().map(|n| n.get()).unwrap_or(4).min(16))
}

/// re-check one (parser, tokens) for a violation with this key
fn still_bad(w: &World, s: &dyn sut::Sut, toks: &[usize], key: &str, property: &str) -> Option<Bad> {
    still_bad_known(w, s, toks, key, property, None)
}

fn still_bad_known(w: &World, s: &dyn sut::Sut, toks: &[usize], key: &str, property: &str, known_prefix: Option<usize>) -> Option<Bad> {
    let mut st = c17::Stats::default();
    let mut known = std::collections::BTreeSet::new();
    if let Some(k) = known_prefix {
        known.insert(toks[..k.min(toks.len())].to_vec());
    }
    let mut rng = Rng::new(1);
    let var = w.variant(s);
    let shapes: &[u8] = if var.builtin { &[0] } else { &[0, 1] };
    for &shape in shapes {
        let bads = if property == "C04" { c17::check_c04_known(w, s, toks, shape, &mut st, &known).0 } else { c17::check_c17(w, s, toks, shape, &mut rng, &mut st) };
        if let Some(b) = bads.into_iter().find(|b| b.key == key) {
            return Some(b);
        }
    }
    None
}

fn minimize(w: &World, s: &dyn sut::Sut, toks: &[usize], key: &str, property: &str) -> (Vec<usize>, Option<Bad>) {
    let mut cur = toks.to_vec();
    let mut best = still_bad(w, s, &cur, key, property);
    if best.is_none() {
        return (cur, None);
    }
    loop {
        let mut changed = false;
        let mut i = cur.len();
        while i > 0 {
            i -= 1;
            let mut cand = cur.clone();
            cand.remove(i);
            if let Some(b) = still_bad(w, s, &cand, key, property) {
                cur = cand;
                best = Some(b);
                changed = true;
            }
        }
        if !changed {
            break;
        }
    }
    (cur, best)
}

fn report(w: &World, property: &str, sum: &c17::Summary) -> (u64, u64, Vec<Value>) {
    let findings = Findings::load();
    let dir = simcore::replay_dir();
    if let Ok(rd) = std::fs::read_dir(&dir) {
        for f in rd.flatten() {
            if f.file_name().to_string_lossy().starts_with(&format!("{property}-")) {
                let _ = std::fs::remove_file(f.path());
            }
        }
    }
    let mut unlisted = 0;
    let mut known = 0;
    let mut docs = Vec::new();
    for (key, (idx, toks, b, count)) in &sum.bad {
        if b.property != property {
            continue;
        }
        let s = w.suts[*idx].as_ref();
        let (mtoks, mb) = if toks.is_empty() {
            (toks.clone(), Some(b.clone()))
        } else if b.aux.is_some() {
            // the known-sentence prefix is tied to these very tokens: no shrinking
            (toks.clone(), still_bad_known(w, s, toks, key, property, b.aux))
        } else {
            minimize(w, s, toks, key, property)
        };
        let mb = match mb {
            Some(x) => x,
            None => simcore::harness_error(&format!("{property}: violation `{key}` did not reproduce on re-execution")),
        };
        let mut doc = c17::case_json(w, s, &mtoks, &mb);
        doc["occurrences_in_this_run"] = json!(count);
        doc["original_tokens"] = json!(toks.len());
        let dig = simcore::digest(doc.to_string().as_bytes());
        let path = dir.join(format!("{property}-{}-{:08x}.json", simcore::env_seed(), dig as u32));
        doc["replay_cmd"] = json!(format!("./check {property} replay {}", path.display()));
        simcore::write_json(&path, &doc);
        if let Some(f) = findings.known(property, key) {
            known += 1;
            println!("KNOWN-FINDING: property={property} {} [key: {key}] replay={}", f.what, path.display());
        } else {
            unlisted += 1;
            println!("VIOLATION property={property} replay={}", path.display());
            println!("  key={key}\n  parser={} tokens={:?}\n  {}", w.name(s), mtoks, mb.detail);
        }
        docs.push(doc);
    }
    (unlisted, known, docs)
}

fn run_stream_checks(property: &str, tier: &str, seed: u64) -> i32 {
    let t0 = Instant::now();
    let w = World::new();
    let per_parser = if tier == "thorough" { 60_000 } else { 12_000 };
    let sum = c17::sweep(&w, seed, per_parser, workers());
    let (unlisted, known, _docs) = report(&w, property, &sum);
    let wall = t0.elapsed().as_secs_f64();
    let st = &sum.stats;
    let mut extra = BTreeMap::new();
    extra.insert("parsers".to_string(), json!(w.suts.len()));
    extra.insert("grammar_specs".to_string(), json!(w.specs.len()));
    extra.insert("compiled_variants".to_string(), json!(corpus::ACCEPTED));
    extra.insert("variants_rejected_by_lalrpop".to_string(), json!(corpus::REJECTED));
    extra.insert("inputs_per_parser".to_string(), json!(per_parser));
    extra.insert("baseline_parses".to_string(), json!(st.baseline_parses));
    extra.insert(
        "fault_kinds_fired".to_string(),
        json!({"stream_error": st.stream_faults, "action_error": st.action_faults, "stream_and_action": st.both_faults, "invalid_token_byte": st.invalid_token_faults, "stream_truncation": st.truncations}),
    );
    extra.insert(
        "reach_probes".to_string(),
        json!({"fault_while_recovery_drops_tokens": st.fault_in_recovery_pull, "fault_in_action_run_by_recovery": st.fault_in_recovery_act, "fault_at_end_of_input_pull": st.fault_at_end_pull, "fault_in_inlined_action": st.fault_in_inlined_action, "fault_at_start_reduction": st.fault_at_start_reduction}),
    );
    extra.insert("runs_per_hour".to_string(), json!(((st.faulted_parses + st.truncations) as f64 / wall * 3600.0) as u64));
    extra.insert("simulated_time".to_string(), json!("none: a parse has no clock; progress is counted in token pulls and actions"));
    extra.insert("real_components".to_string(), json!(["lalrpop code generators (at build time, working tree)", "lalrpop-util state_machine and lexer (working tree)", "regex-automata"]));
    extra.insert("stubbed_components".to_string(), json!(["token source (fault-injecting iterator)", "action bodies (logging, fault-planned)"]));
    extra.insert("known_findings_reported".to_string(), json!(known));
    if tier == "thorough" && (st.fault_in_recovery_pull == 0 || st.fault_in_inlined_action == 0 || st.fault_at_start_reduction == 0 || st.fault_at_end_pull == 0) {
        simcore::harness_error("C17/C04: a reach probe is zero");
    }
    let (evals, rule, samples): (u64, String, Vec<Value>) = if property == "C17" {
        (
            st.faulted_parses,
            "for every compiled parser (table, recursive ascent, LALR, with/without Location, built-in lexer) and every input (sampled sentences, 1-4 token mutations, random token strings, unmapped tokens): the fault-free history is recorded, then EVERY pull of that history is replaced by a stream error, EVERY executed fallible action (also inlined ones and the start reduction) is made to fail, sampled pairs of both, and for built-in lexers an unmatchable byte is spliced at every token boundary; the faulted history must equal the fault-free history up to the fault, then the fault, then exactly that error. distinct_nontrivial = distinct (parser, back end, item type, fault kind, position class, fault-free outcome) tuples".into(),
            vec![json!({"parser": w.name(w.suts[0].as_ref()), "example_input": c17::inputs(&w, w.suts[0].as_ref(), &mut Rng::new(seed), 3)}), json!({"position_classes": ["first-pull", "middle", "end-of-input-pull", "inside-recovery", "inlined-action", "start-reduction", "earlier-wins", "before-first", "after-last"]})],
        )
    } else {
        (
            st.truncations,
            "every proper prefix (k = 0..n-1) of every sampled sentence of every recovery-free corpus parser, plain and Result item streams: result must be Ok or UnrecognizedEof located at the end of token k (the location type's default for k = 0), exactly k+1 pulls, none after the end, and all back ends of one grammar agree. distinct_nontrivial = distinct (parser, back end, k=0 / k>0, location type) tuples".into(),
            vec![json!({"parser": w.name(w.suts[1].as_ref()), "sentences": c17::inputs(&w, w.suts[1].as_ref(), &mut Rng::new(seed), 2)})],
        )
    };
    let distinct = st.shapes.iter().filter(|s| if property == "C04" { s.contains("|eof|") } else { !s.contains("|eof|") }).count() as u64;
    Evidence {
        property_id: property.into(),
        tier: tier.into(),
        seed,
        level: "fault_enumeration".into(),
        evaluations: evals,
        distinct_nontrivial: distinct,
        rule,
        samples,
        exhaustive: true,
        assumptions: vec![
            "exhaustive means: all fault positions of each sampled input; inputs and grammars are a finite seeded corpus".into(),
            "an LR parse is deterministic, so a fault cannot influence anything before it fires: the fault-free history of the same parser is the oracle".into(),
            if property == "C04" { "only the end-of-stream clause of C04 is decided here (every prefix of a sentence is viable by construction); where the first non-viable token of an arbitrary rejected input lies is NOT claimed".into() } else { "error values are compared by identity of the injected id".into() },
        ],
        wall_s: wall,
        violations: unlisted,
        extra,
    }
    .write();
    println!("{property} {tier}: {} parsers, {} faulted parses, {} truncations, {} distinct shapes, {} unlisted violations, {} known findings, {:.1}s", w.suts.len(), st.faulted_parses, st.truncations, distinct, unlisted, known, wall);
    if unlisted > 0 {
        simcore::EXIT_VIOLATION
    } else {
        simcore::EXIT_OK
    }
}

fn parse_mismatch(msg: &str) -> (String, String) {
    // "C27-MISMATCH invariant=.. grammar=.. lexer=.. thread=.."
    let get = |k: &str| msg.split_whitespace().find_map(|w| w.strip_prefix(&format!("{k}="))).unwrap_or("-").trim_end_matches(':').to_string();
    if msg.contains("C27-MISMATCH") {
        (format!("equals-fresh-sequential|grammar={}|lexer={}", get("grammar"), get("lexer")), msg.to_string())
    } else if msg.to_lowercase().contains("deadlock") || msg.contains("exceeded max_steps") {
        ("no-hang|shuttle-deadlock-or-step-bound".to_string(), msg.to_string())
    } else {
        (format!("panic-under-concurrency|{}", msg.split_whitespace().take(6).collect::<Vec<_>>().join("-")), msg.to_string())
    }
}

/// One shuttle batch, run in a child process so that a hang (e.g. a lock held across user
/// code, a re-entrant deadlock) can be cut off by the supervisor.  Prints one JSON line.
fn c27_batch(which: &str, bseed: u64, iters: usize, seed: u64, sdir: &str) -> i32 {
    use shuttle::scheduler::{PctScheduler, RandomScheduler};
    let shared = std::sync::Arc::new(c27::prepare(seed));
    let last_panic: std::sync::Arc<std::sync::Mutex<String>> = Default::default();
    {
        let lp = last_panic.clone();
        std::panic::set_hook(Box::new(move |info| {
            let msg = if let Some(s) = info.payload().downcast_ref::<&str>() { s.to_string() } else if let Some(s) = info.payload().downcast_ref::<String>() { s.clone() } else { "panic".into() };
            let mut g = lp.lock().unwrap();
            if g.is_empty() || msg.contains("C27-MISMATCH") {
                *g = msg;
            }
        }));
    }
    let _ = std::fs::create_dir_all(sdir);
    let mut cfg = shuttle::Config::new();
    cfg.failure_persistence = shuttle::FailurePersistence::File(Some(std::path::PathBuf::from(sdir)));
    cfg.max_steps = shuttle::MaxSteps::FailAfter(2_000_000);
    let sh = shared.clone();
    let res = std::panic::catch_unwind(std::panic::AssertUnwindSafe(|| {
        if which == "random" {
            shuttle::Runner::new(RandomScheduler::new_from_seed(bseed, iters), cfg).run(move || c27::scenario(&sh));
        } else {
            shuttle::Runner::new(PctScheduler::new_from_seed(bseed, 3, iters), cfg).run(move || c27::scenario(&sh));
        }
    }));
    let _ = std::panic::take_hook();
    let mut out = json!({
        "execs": *shared.executions.lock().unwrap(),
        "distinct": shared.schedules.lock().unwrap().len(),
        "parses": *shared.parses.lock().unwrap(),
        "switches": *shared.switches.lock().unwrap(),
        "targets": shared.targets.len(),
        "builtin_targets": shared.targets.iter().filter(|t| t.builtin).count(),
        "reentrant_cases": shared.targets.iter().map(|t| t.cases.iter().filter(|c| c.reenter_at.is_some()).count()).sum::<usize>(),
        "failed": false,
    });
    if res.is_err() {
        let msg = last_panic.lock().unwrap().clone();
        let (key, detail) = parse_mismatch(&msg);
        let sched = std::fs::read_dir(sdir).ok().and_then(|rd| rd.flatten().map(|e| e.path()).next());
        out["failed"] = json!(true);
        out["key"] = json!(key);
        out["detail"] = json!(detail);
        out["replay"] = json!(sched.map(|p| p.display().to_string()).unwrap_or_else(|| sdir.to_string()));
    } else {
        let _ = std::fs::remove_dir(sdir);
    }
    println!("C27-BATCH-RESULT {out}");
    0
}

/// Real std threads, no shuttle: used to tell a genuine deadlock from a lock that is merely
/// held across a scheduling point (which shuttle cannot schedule around).
fn c27_probe(kind: &str, seed: u64) -> i32 {
    use rt::{Ctx, Plan};
    let shared = std::sync::Arc::new(c27::prepare(seed));
    for (ti, t) in shared.targets.iter().enumerate() {
        if kind == "reentrant" {
            for c in t.cases.iter().filter(|c| c.reenter_at.is_some()) {
                let mut ctx = Ctx::new(Plan { reenter_at: c.reenter_at, ..Default::default() });
                let sh = shared.clone();
                ctx.reenter = Some(Box::new(move || {
                    let t = &sh.targets[ti];
                    let inner = Ctx::new(Plan::default());
                    let out = c27::parse_on(t, &sh.specs, t.shared.as_ref(), &inner, &t.nested_toks, 0);
                    format!("{:?}", Ok::<rt::Outcome, String>(out))
                }));
                println!("probe reentrant {} ...", t.name);
                let out = c27::parse_on(t, &shared.specs, t.shared.as_ref(), &ctx, &c.toks, c.shape);
                if out != c.out || *ctx.log.borrow() != c.log {
                    println!("C27-PROBE-MISMATCH reentrant {}", t.name);
                    return 1;
                }
            }
        } else {
            println!("probe concurrent {} ...", t.name);
            // grammars with `!` get a longer stress: several threads in error recovery at once
            let rounds = if shared.specs[t.spec].has_recovery { 20_000 } else { 200 };
            let mut hs = Vec::new();
            for th in 0..4usize {
                let sh = shared.clone();
                hs.push(std::thread::spawn(move || {
                    let t = &sh.targets[ti];
                    for round in 0..rounds {
                        let c = &t.cases[(th * 5 + round) % t.cases.len()];
                        if c.reenter_at.is_some() {
                            continue;
                        }
                        let mut ctx = Ctx::new(Plan::default());
                        if round % 8 == 0 {
                            ctx.yield_hook = Some(Box::new(std::thread::yield_now));
                        }
                        let out = c27::parse_on(t, &sh.specs, t.shared.as_ref(), &ctx, &c.toks, c.shape);
                        if out != c.out || *ctx.log.borrow() != c.log {
                            return false;
                        }
                    }
                    true
                }));
            }
            for h in hs {
                if !h.join().unwrap_or(false) {
                    println!("C27-PROBE-MISMATCH concurrent {}", t.name);
                    return 1;
                }
            }
        }
    }
    println!("probe {kind} ok");
    0
}

/// run a child of ourselves with a wall-clock cap; None = timed out (killed)
fn child(args: &[String], cap_s: u64) -> Option<(i32, String)> {
    use std::io::Read;
    let exe = std::env::current_exe().expect("current_exe");
    let mut c = std::process::Command::new(exe).args(args).stdout(std::process::Stdio::piped()).stderr(std::process::Stdio::null()).spawn().expect("spawn child");
    let mut so = c.stdout.take().unwrap();
    let reader = std::thread::spawn(move || {
        let mut s = String::new();
        let _ = so.read_to_string(&mut s);
        s
    });
    let t0 = Instant::now();
    loop {
        match c.try_wait() {
            Ok(Some(st)) => return Some((st.code().unwrap_or(-1), reader.join().unwrap_or_default())),
            Ok(None) => {
                if t0.elapsed().as_secs() > cap_s {
                    let _ = c.kill();
                    let _ = c.wait();
                    return None;
                }
                std::thread::sleep(std::time::Duration::from_millis(20));
            }
            Err(_) => return None,
        }
    }
}

fn run_c27(tier: &str, seed: u64) -> i32 {
    let t0 = Instant::now();
    let thorough = tier == "thorough";
    let dir = simcore::replay_dir();
    if let Ok(rd) = std::fs::read_dir(&dir) {
        for f in rd.flatten() {
            let n = f.file_name().to_string_lossy().into_owned();
            if n.starts_with("C27-") && n != "C27-miri.log" {
                if f.path().is_dir() {
                    let _ = std::fs::remove_dir_all(f.path());
                } else {
                    let _ = std::fs::remove_file(f.path());
                }
            }
        }
    }
    let iters_random: usize = if thorough { 6_000_000 } else { 640_000 };
    let iters_pct: usize = if thorough { 2_400_000 } else { 256_000 };
    let batches: usize = if thorough { 16 } else { 4 };
    let findings = Findings::load();
    let mut unlisted = 0u64;
    let mut known = 0u64;
    let mut keys_seen = std::collections::BTreeSet::new();
    let mut jobs: Vec<(String, u64, usize, String)> = Vec::new();
    for (which, iters) in [("random", iters_random), ("pct", iters_pct)] {
        for b in 0..batches {
            let bseed = seed.wrapping_mul(1_000_003).wrapping_add(b as u64 * 7919 + if which == "pct" { 13 } else { 0 });
            jobs.push((which.to_string(), bseed, iters / batches, dir.join(format!("C27-{seed}-{which}-{b}")).display().to_string()));
        }
    }
    // a hang is cut off after a cap that is >= 60x the normal duration of a batch
    let cap = if thorough { 1800 } else { 300 };
    let results: std::sync::Mutex<Vec<(usize, Option<(i32, String)>)>> = Default::default();
    let next = std::sync::atomic::AtomicUsize::new(0);
    std::thread::scope(|sc| {
        for _ in 0..workers().min(jobs.len()) {
            sc.spawn(|| loop {
                let i = next.fetch_add(1, std::sync::atomic::Ordering::SeqCst);
                if i >= jobs.len() {
                    break;
                }
                let j = &jobs[i];
                let r = child(&["c27-batch".into(), j.0.clone(), j.1.to_string(), j.2.to_string(), seed.to_string(), j.3.clone()], cap);
                results.lock().unwrap().push((i, r));
            });
        }
    });
    let mut execs = 0u64;
    let mut distinct = 0u64;
    let mut parses = 0u64;
    let mut switches = 0u64;
    let mut targets = 0u64;
    let mut builtin_targets = 0u64;
    let mut reentrant_cases = 0u64;
    let mut hung = Vec::new();
    let mut report = |key: String, detail: String, path: String, unlisted: &mut u64, known: &mut u64| {
        if keys_seen.insert(key.clone()) {
            if let Some(f) = findings.known("C27", &key) {
                *known += 1;
                println!("KNOWN-FINDING: property=C27 {} [key: {key}] replay={path}", f.what);
            } else {
                *unlisted += 1;
                println!("VIOLATION property=C27 replay={path}");
                println!("  key={key}\n  {detail}");
            }
        }
    };
    let mut res = results.into_inner().unwrap();
    res.sort_by_key(|r| r.0);
    for (i, r) in res {
        match r {
            None => hung.push(i),
            Some((_code, out)) => {
                let line = out.lines().find_map(|l| l.strip_prefix("C27-BATCH-RESULT "));
                let v: Value = match line.and_then(|l| serde_json::from_str(l).ok()) {
                    Some(v) => v,
                    None => simcore::harness_error(&format!("C27 batch {i} produced no result: {}", out.lines().last().unwrap_or(""))),
                };
                execs += v["execs"].as_u64().unwrap_or(0);
                distinct += v["distinct"].as_u64().unwrap_or(0);
                parses += v["parses"].as_u64().unwrap_or(0);
                switches += v["switches"].as_u64().unwrap_or(0);
                targets = v["targets"].as_u64().unwrap_or(0);
                builtin_targets = v["builtin_targets"].as_u64().unwrap_or(0);
                reentrant_cases = v["reentrant_cases"].as_u64().unwrap_or(0);
                if v["failed"].as_bool() == Some(true) {
                    report(v["key"].as_str().unwrap_or("?").to_string(), format!("scheduler={} seed={}\n  {}", jobs[i].0, jobs[i].1, v["detail"].as_str().unwrap_or("")), v["replay"].as_str().unwrap_or("").to_string(), &mut unlisted, &mut known);
                }
            }
        }
    }
    let mut shuttle_blocked = false;
    // real std threads (no shuttle), always: cheap, and the only scheduler that can run code which
    // blocks in a non-shuttle lock
    let mut probes_ok = 0u64;
    if hung.is_empty() {
        for kind in ["reentrant", "concurrent"] {
            match child(&["c27-probe".into(), kind.into(), seed.to_string()], 300) {
                None => {
                    let path = dir.join(format!("C27-{seed}-hang-{kind}.json"));
                    simcore::write_json(&path, &json!({"property": "C27", "key": format!("no-hang|{kind}-parse-deadlocks"), "probe": kind, "seed": seed}));
                    report(format!("no-hang|{kind}-parse-deadlocks"), format!("real std threads: the {kind} probe did not finish within 300 s"), path.display().to_string(), &mut unlisted, &mut known);
                }
                Some((code, out)) if code != 0 => {
                    let path = dir.join(format!("C27-{seed}-probe-{kind}.json"));
                    simcore::write_json(&path, &json!({"property": "C27", "key": format!("equals-fresh-sequential|real-threads-{kind}"), "probe": kind, "seed": seed}));
                    report(format!("equals-fresh-sequential|real-threads-{kind}"), out.lines().last().unwrap_or("").to_string(), path.display().to_string(), &mut unlisted, &mut known);
                }
                Some(_) => probes_ok += 1,
            }
        }
    }
    if !hung.is_empty() {
        // a batch did not finish: genuine deadlock, or a lock held across a scheduling point (which
        // shuttle, modelling only its own primitives, cannot schedule around)?  Ask real threads.
        for kind in ["reentrant", "concurrent"] {
            let r = child(&["c27-probe".into(), kind.into(), seed.to_string()], 120);
            let path = dir.join(format!("C27-{seed}-hang-{kind}.json"));
            match r {
                None => {
                    simcore::write_json(&path, &json!({"property": "C27", "key": format!("no-hang|{kind}-parse-deadlocks"), "probe": kind, "seed": seed, "replay_cmd": format!("./check C27 replay {}", path.display())}));
                    report(format!("no-hang|{kind}-parse-deadlocks"), format!("real std threads: the {kind} probe did not finish within 120 s (a lock is held while user code runs?)"), path.display().to_string(), &mut unlisted, &mut known);
                }
                Some((code, out)) if code != 0 => {
                    simcore::write_json(&path, &json!({"property": "C27", "key": format!("equals-fresh-sequential|real-threads-{kind}"), "probe": kind, "seed": seed}));
                    report(format!("equals-fresh-sequential|real-threads-{kind}"), out.lines().last().unwrap_or("").to_string(), path.display().to_string(), &mut unlisted, &mut known);
                }
                Some(_) => {}
            }
        }
        if unlisted == 0 && known == 0 {
            shuttle_blocked = true;
            println!("NOTE C27: {} shuttle batch(es) blocked in a non-shuttle lock held across a scheduling point; real-thread probes (re-entrant and concurrent) finished with correct results, so no violation is reported; schedule exploration was not possible for those batches", hung.len());
        }
    }
    let wall = t0.elapsed().as_secs_f64();
    let mut extra = BTreeMap::new();
    extra.insert("shared_parsers".to_string(), json!(targets));
    extra.insert("builtin_lexer_parsers".to_string(), json!(builtin_targets));
    extra.insert("schedulers".to_string(), json!({"random_iterations": iters_random, "pct_depth3_iterations": iters_pct, "batches_each": batches}));
    extra.insert("concurrent_parses_checked".to_string(), json!(parses));
    extra.insert("context_switches_observed".to_string(), json!(switches));
    extra.insert("reentrant_cases".to_string(), json!(reentrant_cases));
    extra.insert("batches_cut_off_by_watchdog".to_string(), json!(hung.len()));
    extra.insert("real_thread_probes_passed".to_string(), json!(probes_ok));
    extra.insert("shuttle_blocked_by_foreign_lock".to_string(), json!(shuttle_blocked));
    extra.insert("fault_kinds_fired".to_string(), json!({"preemption_at_token_pull_or_action": switches, "reentrant_parse_from_action": "every fifth case"}));
    extra.insert("runs_per_hour".to_string(), json!((execs as f64 / wall * 3600.0) as u64));
    extra.insert("simulated_time".to_string(), json!("none"));
    extra.insert("real_components".to_string(), json!(["generated parsers", "lalrpop-util state machine and lexer", "regex-automata lazy DFA"]));
    extra.insert("stubbed_components".to_string(), json!(["thread scheduler (shuttle: seeded random and PCT depth 3)", "token source and action bodies (scheduling points)"]));
    extra.insert("compile_time_assertions".to_string(), json!("assert_send_sync::<Parser>() for every corpus parser (corpus.rs)"));
    // the check script runs Miri first (thorough tier) and tells us how it went
    let miri_status = std::env::var("VERIF_MIRI_STATUS").unwrap_or_else(|_| "not-run (quick tier)".into());
    let miri_seeds = std::env::var("VERIF_MIRI_SEEDS").unwrap_or_default();
    extra.insert("miri".to_string(), json!({"status": miri_status, "seeds": miri_seeds, "flags": "-Zmiri-many-seeds -Zmiri-preemption-rate=0.1", "scenario": "3 std threads x 2 parses on one shared built-in-lexer parser, two grammars"}));
    if miri_status == "fail" {
        let log = std::env::var("VERIF_MIRI_LOG").unwrap_or_default();
        report("miri-clean|data-race-or-ub-or-mismatch".to_string(), "Miri reported a data race, undefined behaviour or a wrong result; see the log (each failing seed replays with -Zmiri-seed=<n>)".to_string(), log, &mut unlisted, &mut known);
    }
    extra.insert("known_findings_reported".to_string(), json!(known));
    if execs == 0 && hung.is_empty() {
        simcore::harness_error("C27: no shuttle execution completed");
    }
    Evidence {
        property_id: "C27".into(),
        tier: tier.into(),
        seed,
        level: "exploration".into(),
        evaluations: execs.max(1),
        distinct_nontrivial: distinct.max(2),
        rule: "one shared parser value (all built-in-lexer parsers of the corpus and a third of the extern-token ones) in an Arc; 2-4 shuttle threads each run 1-4 parses of inputs drawn through shuttle::rand (valid, mutated, random, empty; every fifth case re-enters parse on the same parser from inside an action), then the main thread reuses the parser; every token pull and action body is a scheduling point. Each result and event history must equal that of a fresh parser on that input alone. distinct_nontrivial = distinct sequences of thread choices at scheduling points (hashed, summed over batches with different scheduler seeds). A batch that does not finish is cut off by a wall-clock watchdog and decided by real-thread probes".into(),
        samples: vec![json!({"batches": jobs.iter().take(3).map(|j| json!({"scheduler": j.0, "seed": j.1, "iterations": j.2})).collect::<Vec<_>>()})],
        exhaustive: false,
        assumptions: vec![
            "instruction-level data races are outside shuttle's reach; the thorough tier adds Miri's seeded pre-emptive scheduler".into(),
            "shuttle models only its own primitives: if the code under test takes a std lock and holds it across a scheduling point, shuttle blocks; such batches are cut off and decided by real-thread probes instead".into(),
        ],
        wall_s: wall,
        violations: unlisted,
        extra,
    }
    .write();
    println!("C27 {tier}: {execs} executions, {distinct} distinct schedules, {parses} parses, {} batches cut off, {unlisted} unlisted violations, {known} known findings, {:.1}s", hung.len(), wall);
    if unlisted > 0 {
        simcore::EXIT_VIOLATION
    } else {
        simcore::EXIT_OK
    }
}

fn replay_c27(path: &str) -> i32 {
    let shared = std::sync::Arc::new(c27::prepare(simcore::env_seed()));
    let last: std::sync::Arc<std::sync::Mutex<String>> = Default::default();
    {
        let lp = last.clone();
        std::panic::set_hook(Box::new(move |info| {
            let msg = if let Some(s) = info.payload().downcast_ref::<&str>() { s.to_string() } else if let Some(s) = info.payload().downcast_ref::<String>() { s.clone() } else { "panic".into() };
            let mut g = lp.lock().unwrap();
            if g.is_empty() || msg.contains("C27-MISMATCH") {
                *g = msg;
            }
        }));
    }
    let res = std::panic::catch_unwind(std::panic::AssertUnwindSafe(|| {
        shuttle::replay_from_file(move || c27::scenario(&shared), path);
    }));
    let _ = std::panic::take_hook();
    let msg = last.lock().unwrap().clone();
    if res.is_err() && (msg.contains("C27-MISMATCH") || msg.to_lowercase().contains("deadlock")) {
        println!("reproduced: {msg}");
        println!("VIOLATION property=C27 replay={path}");
        simcore::EXIT_VIOLATION
    } else if res.is_err() {
        // the recorded schedule no longer fits the execution (the code changed): nothing to report
        println!("not reproduced: the schedule does not apply to this tree ({})", msg.lines().next().unwrap_or(""));
        simcore::EXIT_OK
    } else {
        println!("not reproduced");
        simcore::EXIT_OK
    }
}

/// Real std threads sharing one built-in-lexer parser; meant to run under
/// `cargo +nightly miri run` (seeded pre-emptive scheduler, data-race and UB detection).
/// Touches no file and no environment, so Miri's isolation can stay on.
fn run_miri() -> i32 {
    use rt::{Ctx, Plan};
    let names = ["expr_lex::Expr", "list_lex::Seq"];
    let inputs: [&[&str]; 2] = [&["n + n * ( n )", "n + + n", "( n", ""], &["[ x , x , ]", "[ x x", "[ ]"]];
    for (pi, name) in names.iter().enumerate() {
        let fresh = match corpus::make(name) {
            Some(f) => f,
            None => {
                // the generator of this tree rejected that corpus grammar: nothing to run here
                println!("miri scenario: parser {name} is not in the corpus, skipped");
                continue;
            }
        };
        let expected: Vec<(rt::Outcome, Vec<rt::Ev>)> = inputs[pi]
            .iter()
            .map(|t| {
                let ctx = Ctx::new(Plan::default());
                let o = fresh.parse_str(&ctx, t);
                let l = ctx.log.borrow().clone();
                (o, l)
            })
            .collect();
        let shared: std::sync::Arc<dyn sut::Sut> = std::sync::Arc::from(corpus::make(name).expect("corpus parser"));
        let expected = std::sync::Arc::new(expected);
        let mut hs = Vec::new();
        for th in 0..3usize {
            let sh = shared.clone();
            let ex = expected.clone();
            let ins: Vec<String> = inputs[pi].iter().map(|s| s.to_string()).collect();
            hs.push(std::thread::spawn(move || {
                for round in 0..2 {
                    let i = (th + round) % ins.len();
                    let ctx = Ctx::new(Plan::default());
                    let o = sh.parse_str(&ctx, &ins[i]);
                    let l = ctx.log.borrow().clone();
                    if o != ex[i].0 || l != ex[i].1 {
                        return Err(format!("thread {th} input {i}: {:?} vs fresh {:?}", o, ex[i].0));
                    }
                }
                Ok(())
            }));
        }
        for h in hs {
            match h.join() {
                Ok(Ok(())) => {}
                Ok(Err(e)) => {
                    println!("C27-MIRI-MISMATCH parser={name} {e}");
                    return 1;
                }
                Err(_) => {
                    println!("C27-MIRI-PANIC parser={name}");
                    return 1;
                }
            }
        }
    }
    println!("miri scenario ok");
    0
}

fn replay(path: &str) -> i32 {
    let doc: Value = serde_json::from_slice(&std::fs::read(path).unwrap_or_else(|e| simcore::harness_error(&format!("{path}: {e}")))).unwrap_or_else(|e| simcore::harness_error(&format!("bad replay file: {e}")));
    if doc["property"].as_str() == Some("C27") {
        let kind = doc["probe"].as_str().unwrap_or("reentrant").to_string();
        let seed = doc["seed"].as_u64().unwrap_or(1);
        return match child(&["c27-probe".into(), kind.clone(), seed.to_string()], 120) {
            None => {
                println!("reproduced: the {kind} probe hangs\nVIOLATION property=C27 replay={path}");
                simcore::EXIT_VIOLATION
            }
            Some((0, _)) => {
                println!("not reproduced");
                simcore::EXIT_OK
            }
            Some((_, out)) => {
                println!("reproduced: {}\nVIOLATION property=C27 replay={path}", out.lines().last().unwrap_or(""));
                simcore::EXIT_VIOLATION
            }
        };
    }
    let w = World::new();
    let name = doc["parser"].as_str().unwrap_or("");
    let s = w.find(name).unwrap_or_else(|| simcore::harness_error(&format!("parser {name} is not in the corpus")));
    let toks: Vec<usize> = doc["tokens"].as_array().map(|a| a.iter().map(|v| v.as_u64().unwrap_or(u64::MAX) as usize).collect()).unwrap_or_default();
    let key = doc["key"].as_str().unwrap_or("");
    let property = doc["property"].as_str().unwrap_or("C17");
    let known_prefix = doc["known_sentence_prefix"].as_u64().map(|k| k as usize);
    match still_bad_known(&w, s, &toks, key, property, known_prefix) {
        Some(b) => {
            println!("reproduced: {}\n  {}", b.key, b.detail);
            println!("VIOLATION property={property} replay={path}");
            simcore::EXIT_VIOLATION
        }
        None => {
            println!("not reproduced: no violation with key `{key}`");
            simcore::EXIT_OK
        }
    }
}

fn main() {
    let args: Vec<String> = std::env::args().skip(1).collect();
    if args.first().map(|s| s.as_str()) == Some("miri") {
        std::process::exit(run_miri());
    }
    let seed = simcore::env_seed();
    println!("VERIF_SEED={seed}");
    let mode = args.first().map(|s| s.as_str()).unwrap_or("");
    let tier = args.get(1).map(|s| s.as_str()).unwrap_or("quick");
    let code = match mode {
        "c17" => run_stream_checks("C17", tier, seed),
        "c04" => run_stream_checks("C04", tier, seed),
        "c27" => run_c27(tier, seed),
        "c27-batch" => c27_batch(tier, args.get(2).and_then(|s| s.parse().ok()).unwrap_or(1), args.get(3).and_then(|s| s.parse().ok()).unwrap_or(100), args.get(4).and_then(|s| s.parse().ok()).unwrap_or(1), args.get(5).map(|s| s.as_str()).unwrap_or("/tmp/c27")),
        "c27-probe" => c27_probe(tier, args.get(2).and_then(|s| s.parse().ok()).unwrap_or(1)),
        "replay-c27" => replay_c27(tier),
        "replay" => replay(tier),
        "selftest-determinism" => {
            // same seed, different worker counts, fresh corpus instances: identical digests
            let a = c17::sweep(&World::new(), seed, 400, 1);
            let b = c17::sweep(&World::new(), seed, 400, workers());
            let c = c17::sweep(&World::new(), seed + 1, 400, workers());
            let s1 = c27::prepare(seed);
            let s2 = c27::prepare(seed);
            let mut same27 = s1.targets.len() == s2.targets.len();
            for (x, y) in s1.targets.iter().zip(s2.targets.iter()) {
                same27 &= x.cases.len() == y.cases.len() && x.cases.iter().zip(y.cases.iter()).all(|(p, q)| p.toks == q.toks && p.log == q.log && p.out == q.out);
            }
            println!("parsesim selftest-determinism: digests {:016x} / {:016x} (other seed {:016x}), {} vs {} faulted parses, C27 expectations equal: {same27}", a.stats.digest, b.stats.digest, c.stats.digest, a.stats.faulted_parses, b.stats.faulted_parses);
            if a.stats.digest != b.stats.digest || a.stats.faulted_parses != b.stats.faulted_parses || a.stats.digest == c.stats.digest || !same27 {
                simcore::EXIT_HARNESS
            } else {
                0
            }
        }
        "miri" => run_miri(),
        "corpus" => {
            let w = World::new();
            for s in &w.suts {
                println!("{}", w.name(s.as_ref()));
            }
            0
        }
        _ => {
            eprintln!("usage: parsesim <c17|c04|c27> <quick|thorough> | replay <file> | corpus");
            simcore::EXIT_HARNESS
        }
    };
    std::process::exit(code);
}
