//! C27 -- generated parsers are reentrant and safe to share across threads.
//! shuttle owns the schedule; scheduling points are every token pull and every
//! action body (user code of the generated parser).  Oracle: each result and
//! event history equals that of a fresh parser on that input alone.

use crate::c17::{run_case, text_of, World};
use crate::rt::{Ctx, Ev, Item, Outcome, Plan};
use crate::sut::Sut;
use shuttle::rand::Rng as _;
use std::collections::BTreeSet;
use std::sync::{Arc, Mutex};

pub struct CaseExp {
    pub toks: Vec<usize>,
    pub shape: u8,
    pub reenter_at: Option<usize>,
    pub log: Vec<Ev>,
    pub out: Outcome,
}

pub struct Target {
    pub name: String,
    pub builtin: bool,
    pub spec: usize,
    pub shared: Arc<dyn Sut>,
    pub cases: Vec<CaseExp>,
    /// the input parsed by the nested (re-entrant) call, and its expected rendering
    pub nested_toks: Vec<usize>,
    pub nested_expect: String,
}

pub struct Shared {
    pub targets: Vec<Target>,
    pub specs: Vec<crate::spec::Spec>,
    /// thread-choice traces of finished executions (reach measure)
    pub schedules: Mutex<BTreeSet<u64>>,
    pub executions: Mutex<u64>,
    pub switches: Mutex<u64>,
    pub parses: Mutex<u64>,
}

pub fn parse_on(t: &Target, specs: &[crate::spec::Spec], sut: &dyn Sut, ctx: &Ctx, toks: &[usize], shape: u8) -> Outcome {
    if t.builtin {
        let (text, _) = text_of(&specs[t.spec], toks, None);
        sut.parse_str(ctx, &text)
    } else {
        let items: Vec<Item> = toks.iter().map(|x| Item(*x)).collect();
        sut.parse_toks(ctx, &items, shape)
    }
}

/// Expected results come from a *fresh* registry (fresh parser values), sequentially.
pub fn prepare(seed: u64) -> Shared {
    let fresh = World::new();
    let shared_reg = crate::corpus::registry();
    let mut targets = Vec::new();
    for (i, sh) in shared_reg.into_iter().enumerate() {
        let f = fresh.suts[i].as_ref();
        let var = fresh.variant(f).clone();
        // all built-in lexer parsers (they own a shared DFA), and every third extern one
        if !var.builtin && i % 3 != 0 {
            continue;
        }
        let mut rng = simcore::Rng::derive(seed, 270_000 + i as u64);
        let ins = crate::c17::inputs(&fresh, f, &mut rng, 20);
        if ins.is_empty() {
            continue;
        }
        let shared: Arc<dyn Sut> = Arc::from(sh);
        let nested_toks = ins[0].0.clone();
        let nested = run_case(&fresh, f, &nested_toks, 0, Plan::default(), None);
        let nested_expect = format!("{:?}", nested.out);
        let mut cases = Vec::new();
        let mut extra: Vec<(Vec<usize>, bool)> = vec![(vec![], false)];
        extra.extend(ins.into_iter());
        for (n, (toks, _)) in extra.into_iter().enumerate() {
            let shape = if var.builtin { 0 } else { (n % 2) as u8 };
            let base = run_case(&fresh, f, &toks, shape, Plan::default(), None);
            let out = match base.out {
                Ok(o) => o,
                Err(_) => continue,
            };
            // every fifth case re-enters `parse` on the same parser from inside an action
            let nacts = base.log.iter().filter(|e| matches!(e, Ev::Act(..) | Ev::ActF(..))).count();
            if n % 5 == 4 && nacts > 0 {
                let at = rng.below(nacts as u64) as usize;
                // expected history: the same, plus one Nested event right before action `at`
                let mut log = Vec::new();
                let mut seen = 0usize;
                for e in &base.log {
                    if matches!(e, Ev::Act(..) | Ev::ActF(..)) {
                        if seen == at {
                            log.push(Ev::Nested(nested_expect.clone()));
                        }
                        seen += 1;
                    }
                    log.push(e.clone());
                }
                cases.push(CaseExp { toks, shape, reenter_at: Some(at), log, out });
            } else {
                cases.push(CaseExp { toks, shape, reenter_at: None, log: base.log, out });
            }
        }
        targets.push(Target { name: fresh.name(f), builtin: var.builtin, spec: var.spec, shared, cases, nested_toks, nested_expect });
    }
    Shared { targets, specs: fresh.specs, schedules: Mutex::new(BTreeSet::new()), executions: Mutex::new(0), switches: Mutex::new(0), parses: Mutex::new(0) }
}

fn mix(h: u64, v: u64) -> u64 {
    let mut z = (h ^ v).wrapping_add(0x9E3779B97F4A7C15);
    z = (z ^ (z >> 30)).wrapping_mul(0xBF58476D1CE4E5B9);
    z ^ (z >> 31)
}

/// One shuttle execution.
pub fn scenario(sh: &Arc<Shared>) {
    let mut rng = shuttle::rand::thread_rng();
    let ti = rng.gen_range(0..sh.targets.len());
    // half of the executions use two different parser values (different grammars / parser types)
    // alternately: state shared between parser types through a static would show here
    let tj = if rng.gen_range(0..2) == 0 { rng.gen_range(0..sh.targets.len()) } else { ti };
    let nthreads = rng.gen_range(2..=4usize);
    let trace: Arc<Mutex<Vec<u8>>> = Arc::new(Mutex::new(Vec::new()));
    let mut handles = Vec::new();
    for th in 0..nthreads {
        let sh2 = sh.clone();
        let trace2 = trace.clone();
        let nparse = rng.gen_range(1..=4usize);
        let picks: Vec<(usize, usize)> = (0..nparse)
            .map(|_| {
                let which = if rng.gen_range(0..2) == 0 { ti } else { tj };
                (which, rng.gen_range(0..sh.targets[which].cases.len()))
            })
            .collect();
        handles.push(shuttle::thread::spawn(move || {
            for (ti, ci) in picks {
                let t = &sh2.targets[ti];
                let c = &t.cases[ci];
                let mut ctx = Ctx::new(Plan { reenter_at: c.reenter_at, ..Default::default() });
                let tr = trace2.clone();
                let hook = move || {
                    tr.lock().unwrap().push(th as u8);
                    shuttle::thread::sleep(std::time::Duration::from_millis(0));
                };
                ctx.yield_hook = Some(Box::new(hook.clone()));
                if c.reenter_at.is_some() {
                    let sh3 = sh2.clone();
                    let hook2 = hook.clone();
                    ctx.reenter = Some(Box::new(move || {
                        let t = &sh3.targets[ti];
                        let mut inner = Ctx::new(Plan::default());
                        inner.yield_hook = Some(Box::new(hook2.clone()));
                        let out = parse_on(t, &sh3.specs, t.shared.as_ref(), &inner, &t.nested_toks, 0);
                        format!("{:?}", Ok::<Outcome, String>(out))
                    }));
                }
                let out = parse_on(t, &sh2.specs, t.shared.as_ref(), &ctx, &c.toks, c.shape);
                let log = ctx.log.borrow().clone();
                if out != c.out || log != c.log {
                    panic!(
                        "C27-MISMATCH invariant=equals-fresh-sequential grammar={} lexer={} thread={} case={} tokens={:?}: shared parser gave {:?} with {} events, a fresh parser alone gives {:?} with {} events",
                        t.name,
                        if t.builtin { "builtin" } else { "extern" },
                        th,
                        ci,
                        c.toks,
                        out,
                        log.len(),
                        c.out,
                        c.log.len()
                    );
                }
                *sh2.parses.lock().unwrap() += 1;
            }
        }));
    }
    for h in handles {
        h.join().unwrap();
    }
    // the parser is reused sequentially afterwards
    {
        let t = &sh.targets[ti];
        let c = &t.cases[0];
        let ctx = Ctx::new(Plan::default());
        let out = parse_on(t, &sh.specs, t.shared.as_ref(), &ctx, &c.toks, c.shape);
        if out != c.out || *ctx.log.borrow() != c.log {
            panic!("C27-MISMATCH invariant=equals-fresh-sequential grammar={} lexer={} thread=main-after-join case=0 tokens={:?}: sequential reuse after concurrent use differs", t.name, if t.builtin { "builtin" } else { "extern" }, c.toks);
        }
    }
    let tr = trace.lock().unwrap();
    let mut h = mix(ti as u64, nthreads as u64);
    let mut sw = 0u64;
    for (i, b) in tr.iter().enumerate() {
        h = mix(h, *b as u64);
        if i > 0 && tr[i - 1] != *b {
            sw += 1;
        }
    }
    sh.schedules.lock().unwrap().insert(h);
    *sh.executions.lock().unwrap() += 1;
    *sh.switches.lock().unwrap() += sw;
}
