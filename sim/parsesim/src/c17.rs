//! C17 (errors returned verbatim, parse stops) and the end-of-stream clause of
//! C04, by fault enumeration over token streams and fallible actions.
//! Oracle: prefix refinement against the fault-free history (DESIGN 3.2).

use crate::rt::{hi, wrapped_outcome, Ctx, Ev, Item, Outcome, Plan};
use crate::sample::Sampler;
use crate::spec::{Spec, Variant};
use crate::sut::Sut;
use serde_json::{json, Value};
use simcore::Rng;
use std::collections::{BTreeMap, BTreeSet};
use std::panic::{catch_unwind, AssertUnwindSafe};

pub struct World {
    pub specs: Vec<Spec>,
    pub variants: Vec<Variant>,
    pub suts: Vec<Box<dyn Sut>>,
}

impl World {
    pub fn new() -> World {
        let specs = crate::spec::all_specs();
        let variants = crate::spec::all_variants(&specs);
        let suts = crate::corpus::registry();
        if suts.len() < 20 {
            // the working tree's generator rejected (almost) the whole corpus: nothing can be decided here
            simcore::harness_error(&format!("only {} corpus parsers were generated (rejected variants: {:?})", suts.len(), crate::corpus::REJECTED));
        }
        World { specs, variants, suts }
    }
    pub fn variant(&self, s: &dyn Sut) -> &Variant {
        &self.variants[s.info().variant]
    }
    pub fn spec(&self, s: &dyn Sut) -> &Spec {
        &self.specs[self.variant(s).spec]
    }
    pub fn name(&self, s: &dyn Sut) -> String {
        format!("{}::{}", self.variant(s).module, s.info().start)
    }
    pub fn find(&self, name: &str) -> Option<&dyn Sut> {
        self.suts.iter().map(|b| b.as_ref()).find(|s| self.name(*s) == name)
    }
}

#[derive(Clone, Debug)]
pub struct Run {
    pub log: Vec<Ev>,
    pub out: Result<Outcome, String>,
    pub pulls: usize,
}

/// The text a built-in-lexer parser sees for a token sequence; `splice` puts an
/// unmatchable byte right after token number `splice` (0 = before the first).
pub fn text_of(spec: &Spec, toks: &[usize], splice: Option<usize>) -> (String, usize) {
    text_of_junk(spec, toks, splice, "\u{1}")
}

/// unmatchable texts to splice in: a control byte; a multi-byte character whose lead byte also
/// starts Unicode white space; a proper prefix of a multi-character terminal followed by a byte
/// that kills the match (only for specs whose terminals are all literals, where this can be decided)
pub fn junk_variants(spec: &Spec) -> Vec<String> {
    let mut v = vec!["\u{1}".to_string()];
    if spec.regex.is_empty() {
        v.push("\u{20ac}".to_string());
        'outer: for t in &spec.terminals {
            if t.len() >= 2 && t.is_ascii() {
                let p = &t[..t.len() - 1];
                for other in &spec.terminals {
                    if p.starts_with(other.as_str()) {
                        continue 'outer;
                    }
                }
                v.push(format!("{p}\u{1}"));
                break;
            }
        }
    }
    v
}

pub fn text_of_junk(spec: &Spec, toks: &[usize], splice: Option<usize>, junk: &str) -> (String, usize) {
    let mut s = String::new();
    let mut at = 0usize;
    if splice == Some(0) {
        s.push_str(junk);
        if junk.len() > 1 {
            s.push(' ');
        }
    }
    for (i, t) in toks.iter().enumerate() {
        if i > 0 {
            s.push(' ');
        }
        s.push_str(spec.sample(*t));
        if splice == Some(i + 1) {
            if junk.len() > 1 {
                // keep the junk apart from the token before it
                s.push(' ');
            }
            at = s.len();
            s.push_str(junk);
        }
    }
    (s, at)
}

pub fn run_digest(s: &dyn Sut, toks: &[usize], shape: u8, plan: &Plan, splice: Option<usize>, r: &Run) -> u64 {
    let text = format!("{}|{}|{:?}|{}|{:?}|{:?}|{:?}|{:?}", s.info().variant, s.info().start, toks, shape, plan, splice, r.out, r.log);
    simcore::digest(text.as_bytes())
}

pub fn run_case(w: &World, s: &dyn Sut, toks: &[usize], shape: u8, plan: Plan, splice: Option<usize>) -> Run {
    let ctx = Ctx::new(plan);
    let var = w.variant(s);
    let res = catch_unwind(AssertUnwindSafe(|| {
        if var.builtin {
            let (text, _) = text_of(w.spec(s), toks, splice);
            s.parse_str(&ctx, &text)
        } else {
            let items: Vec<Item> = toks.iter().map(|t| Item(*t)).collect();
            s.parse_toks(&ctx, &items, shape)
        }
    }));
    let out = res.map_err(|e| {
        if let Some(m) = e.downcast_ref::<&str>() {
            m.to_string()
        } else if let Some(m) = e.downcast_ref::<String>() {
            m.clone()
        } else {
            "panic".to_string()
        }
    });
    let log = ctx.log.borrow().clone();
    Run { log, out, pulls: ctx.pulls() }
}

#[derive(Clone, Debug)]
pub struct Bad {
    pub property: &'static str,
    pub key: String,
    pub detail: String,
    pub plan: Plan,
    pub splice: Option<usize>,
    pub shape: u8,
    /// C04 `sentence-rejected`: length of the prefix that is known to be a sentence
    pub aux: Option<usize>,
}

fn is_pull(e: &Ev) -> bool {
    matches!(e, Ev::PullTok(..) | Ev::PullErr(..) | Ev::PullEnd(..) | Ev::PullAfterEnd(..))
}

#[derive(Default, Clone)]
pub struct Stats {
    pub faulted_parses: u64,
    pub baseline_parses: u64,
    pub stream_faults: u64,
    pub action_faults: u64,
    pub both_faults: u64,
    pub invalid_token_faults: u64,
    pub truncations: u64,
    pub fault_in_recovery_pull: u64,
    pub fault_in_recovery_act: u64,
    pub fault_at_end_pull: u64,
    pub fault_in_inlined_action: u64,
    pub fault_at_start_reduction: u64,
    pub shapes: BTreeSet<String>,
    /// order-independent digest of every (case, result, history) seen: determinism self-test
    pub digest: u64,
}

impl Stats {
    pub fn merge(&mut self, o: &Stats) {
        self.faulted_parses += o.faulted_parses;
        self.baseline_parses += o.baseline_parses;
        self.stream_faults += o.stream_faults;
        self.action_faults += o.action_faults;
        self.both_faults += o.both_faults;
        self.invalid_token_faults += o.invalid_token_faults;
        self.truncations += o.truncations;
        self.fault_in_recovery_pull += o.fault_in_recovery_pull;
        self.fault_in_recovery_act += o.fault_in_recovery_act;
        self.fault_at_end_pull += o.fault_at_end_pull;
        self.fault_in_inlined_action += o.fault_in_inlined_action;
        self.fault_at_start_reduction += o.fault_at_start_reduction;
        self.shapes.extend(o.shapes.iter().cloned());
        self.digest ^= o.digest;
    }
}

fn backend(v: &Variant) -> String {
    format!("{}{}{}", if v.ascent { "ascent" } else { "table" }, if v.lalr { "+lalr" } else { "" }, if v.builtin { "+lexer" } else { "" })
}

/// indices (into the log) of pulls made while error recovery was dropping tokens, and of
/// actions executed between the failing pull and the recovery action
fn recovery_positions(log: &[Ev]) -> (BTreeSet<usize>, BTreeSet<usize>) {
    let mut pulls = BTreeSet::new();
    let mut acts = BTreeSet::new();
    for (i, e) in log.iter().enumerate() {
        if let Ev::Rec(n, _) = e {
            let mut need = *n;
            let mut j = i;
            while j > 0 {
                j -= 1;
                if is_pull(&log[j]) {
                    if need == 0 {
                        break;
                    }
                    pulls.insert(j);
                    need -= 1;
                } else if matches!(log[j], Ev::Act(..) | Ev::ActF(..)) {
                    acts.insert(j);
                } else if matches!(log[j], Ev::Rec(..)) {
                    break;
                }
            }
        }
    }
    (pulls, acts)
}

/// C17 for one (parser, input): enumerate every fault position.
pub fn check_c17(w: &World, s: &dyn Sut, toks: &[usize], shape: u8, _rng: &mut Rng, st: &mut Stats) -> Vec<Bad> {
    // the sampled (stream fault, action fault) pairs are a function of the input alone, so that
    // re-executing a failing case (minimiser, replay) samples the same pairs
    let mut local_rng = Rng::new(simcore::digest(format!("{:?}/{shape}", toks).as_bytes()));
    let rng = &mut local_rng;
    let var = w.variant(s);
    let spec = w.spec(s);
    let mut bad = Vec::new();
    let base = run_case(w, s, toks, shape, Plan::default(), None);
    st.baseline_parses += 1;
    let be = backend(var);
    let base_kind = match &base.out {
        Ok(o) => o.kind(),
        Err(_) => "panic",
    };
    if let Err(p) = &base.out {
        bad.push(Bad { property: "C17", key: format!("parse-panics|backend={be}|fault=none"), detail: format!("fault-free parse panicked: {p}"), plan: Plan::default(), splice: None, shape, aux: None });
        return bad;
    }
    let (rec_pulls, rec_acts) = recovery_positions(&base.log);
    let pull_pos: Vec<usize> = base.log.iter().enumerate().filter(|(_, e)| is_pull(e)).map(|(i, _)| i).collect();
    let fall_pos: Vec<usize> = base.log.iter().enumerate().filter(|(_, e)| matches!(e, Ev::ActF(..))).map(|(i, _)| i).collect();
    let inlined_pids: BTreeSet<u32> = spec.nts.iter().filter(|n| n.inline).flat_map(|n| n.prods.iter().map(|p| p.id)).collect();
    let start_pids: BTreeSet<u32> = spec.nts.iter().filter(|n| n.name == s.info().start).flat_map(|n| n.prods.iter().map(|p| p.id)).collect();
    let item = if var.builtin { "str" } else if shape == 1 { if var.loc == 2 { "result-noloc" } else { "result-triple" } } else { "plain" };

    let default_loc: i64 = if var.builtin { 0 } else { match var.loc { 0 => 0, 1 => -777, _ => -1 } };
    let mut verify = |plan: Plan, cut: usize, fault_ev: Ev, id: u32, what: &str, where_: &str, st: &mut Stats| {
        let r = run_case(w, s, toks, shape, plan.clone(), None);
        st.faulted_parses += 1;
        st.digest ^= run_digest(s, toks, shape, &plan, None, &r);
        let mut expected: Vec<Ev> = base.log[..cut].to_vec();
        let from_action = matches!(fault_ev, Ev::ActErr(..));
        expected.push(fault_ev);
        // a stream `Err(e)` becomes `User { error: e }`; an action returns whatever variant it built
        let want = if from_action { wrapped_outcome(id, default_loc) } else { Outcome::User(id) };
        let ok = r.out.as_ref().ok() == Some(&want) && r.log == expected;
        st.shapes.insert(format!("{}|{be}|{item}|{what}|{where_}|{base_kind}|{}", var.module, want.kind()));
        if !ok {
            let problem = match &r.out {
                Err(_) => "panic",
                Ok(o) if *o != want => "wrong-result",
                _ if r.log.len() > expected.len() => "continued-after-error",
                _ => "history-differs",
            };
            bad.push(Bad {
                property: "C17",
                key: format!("prefix-then-fault-then-error|backend={be}|item={item}|fault={what}|where={where_}|problem={problem}"),
                detail: format!("expected result {:?} and history of {} events ending in the fault; got {:?} and {} events (first difference at event {})", want, expected.len(), r.out, r.log.len(), r.log.iter().zip(expected.iter()).position(|(a, b)| a != b).unwrap_or(expected.len().min(r.log.len()))),
                plan,
                splice: None,
                shape,
                aux: None,
            });
        }
    };

    // (a) stream errors at every pull of the baseline (only Result-item streams)
    if !var.builtin && shape == 1 {
        for (k, pos) in pull_pos.iter().enumerate() {
            let id = 1000 + k as u32;
            let where_ = if rec_pulls.contains(pos) {
                st.fault_in_recovery_pull += 1;
                "inside-recovery"
            } else if matches!(base.log[*pos], Ev::PullEnd(_)) {
                st.fault_at_end_pull += 1;
                "end-of-input-pull"
            } else if k == 0 {
                "first-pull"
            } else {
                "middle"
            };
            st.stream_faults += 1;
            verify(Plan { stream_err: Some((k, id)), ..Default::default() }, *pos, Ev::PullErr(k, id), id, "stream-error", where_, st);
        }
    }
    // (b) every executed fallible action fails
    for (j, pos) in fall_pos.iter().enumerate() {
        let id = 2000 + j as u32;
        let pid = match &base.log[*pos] {
            Ev::ActF(p, _) => *p,
            _ => 0,
        };
        let where_ = if rec_acts.contains(pos) {
            st.fault_in_recovery_act += 1;
            "inside-recovery"
        } else if inlined_pids.contains(&pid) {
            st.fault_in_inlined_action += 1;
            "inlined-action"
        } else if start_pids.contains(&pid) {
            st.fault_at_start_reduction += 1;
            "start-reduction"
        } else {
            "ordinary"
        };
        st.action_faults += 1;
        verify(Plan { act_err: Some((j, id)), ..Default::default() }, *pos, Ev::ActErr(pid, id), id, "action-error", where_, st);
    }
    // (c) both in one run: the earlier one must win
    if !var.builtin && shape == 1 && !pull_pos.is_empty() && !fall_pos.is_empty() {
        for _ in 0..3 {
            let k = rng.below(pull_pos.len() as u64) as usize;
            let j = rng.below(fall_pos.len() as u64) as usize;
            let (cut, ev, id) = if pull_pos[k] < fall_pos[j] {
                (pull_pos[k], Ev::PullErr(k, 3000), 3000)
            } else {
                let pid = match &base.log[fall_pos[j]] {
                    Ev::ActF(p, _) => *p,
                    _ => 0,
                };
                (fall_pos[j], Ev::ActErr(pid, 4000), 4000)
            };
            st.both_faults += 1;
            verify(Plan { stream_err: Some((k, 3000)), act_err: Some((j, 4000)), ..Default::default() }, cut, ev, id, "both", "earlier-wins", st);
        }
    }
    // (d) built-in lexer: an unmatchable byte at every token boundary
    if var.builtin && !spec.empty_match {
        let base_consumes_all = matches!(base.out, Ok(Outcome::Ok(_)) | Ok(Outcome::Eof { .. }));
        let junks = junk_variants(spec);
        for (b, junk) in (0..=toks.len()).flat_map(|b| junks.iter().map(move |j| (b, j))) {
            let (text, at) = text_of_junk(spec, toks, Some(b), junk);
            let r = {
                let ctx = Ctx::new(Plan::default());
                let res = catch_unwind(AssertUnwindSafe(|| s.parse_str(&ctx, &text)));
                let log = ctx.log.borrow().clone();
                Run { log, out: res.map_err(|_| "panic".to_string()), pulls: ctx.pulls() }
            };
            st.faulted_parses += 1;
            st.digest ^= run_digest(s, toks, shape, &Plan::default(), Some(b), &r).rotate_left(junk.len() as u32);
            st.invalid_token_faults += 1;
            // if the fault-free parse already failed at a token that ends before the
            // splice, the lexer is never asked for the spliced position
            let earlier_error = match &base.out {
                Ok(Outcome::Unrecognized { hi, .. }) => (*hi as usize) <= at,
                Ok(Outcome::Extra { hi, .. }) => (*hi as usize) <= at,
                // the text itself holds a byte sequence no terminal matches, before the splice
                Ok(Outcome::InvalidToken(l)) => (*l as usize) < at,
                _ => false,
            };
            let want_invalid = base_consumes_all || !earlier_error;
            let where_ = if b == 0 { "before-first" } else if b == toks.len() { "after-last" } else { "middle" };
            let jkind = if junk == "\u{1}" { "control-byte" } else if junk.is_ascii() || junk.ends_with('\u{1}') { "terminal-prefix" } else { "multibyte" };
            st.shapes.insert(format!("{}|{be}|str|invalid-token|{where_}|{base_kind}|{jkind}", var.module));
            let good = match &r.out {
                Ok(Outcome::InvalidToken(l)) if want_invalid => *l as usize == at && r.log.len() <= base.log.len() && r.log[..] == base.log[..r.log.len()],
                Ok(o) if !want_invalid => Some(o) == base.out.as_ref().ok() && r.log == base.log,
                _ => false,
            };
            // recovery grammars may legitimately meet the bad byte while *dropping* tokens after an
            // earlier syntax error; the stream error must still come back verbatim
            let good = good || (spec.has_recovery && matches!(&r.out, Ok(Outcome::InvalidToken(l)) if *l as usize == at) && r.log.len() <= base.log.len() && r.log[..] == base.log[..r.log.len()]);
            if !good {
                bad.push(Bad {
                    property: "C17",
                    key: format!("prefix-then-fault-then-error|backend={be}|item=str|fault=invalid-token|where={where_}|problem={}", match &r.out { Err(_) => "panic", Ok(Outcome::InvalidToken(_)) => "history-or-location-differs", _ => "wrong-result" }),
                    detail: format!("unmatchable text {:?} at offset {at} (after token {b}): got {:?} with {} events; fault-free parse gives {:?} with {} events", junk, r.out, r.log.len(), base.out, base.log.len()),
                    plan: Plan::default(),
                    splice: Some(b),
                    shape,
                    aux: None,
                });
            }
        }
    }
    bad
}

/// C04, end-of-stream clause: every proper prefix of a sentence.
/// text with extra white space around and between tokens; returns (text, end offset of the last token)
pub fn decorated_text(spec: &Spec, toks: &[usize], style: u8) -> (String, usize) {
    let (lead, sep, trail) = match style {
        1 => ("", " ", "  "),
        2 => ("\n ", "\t", "\n"),
        3 => ("  ", "  \n ", " \t \n\n"),
        4 => ("\r\n", " \r\n", "\r\n"),
        _ => ("", " ", ""),
    };
    let mut s = String::from(lead);
    let mut end = 0usize;
    for (i, t) in toks.iter().enumerate() {
        if i > 0 {
            s.push_str(sep);
        }
        s.push_str(spec.sample(*t));
        end = s.len();
    }
    s.push_str(trail);
    (s, end)
}

pub fn check_c04(w: &World, s: &dyn Sut, sentence: &[usize], shape: u8, st: &mut Stats) -> (Vec<Bad>, Vec<(usize, &'static str, i64)>) {
    check_c04_known(w, s, sentence, shape, st, &BTreeSet::new())
}

/// `known`: token sequences known to be sentences of this start symbol (they were sampled from the
/// grammar): a prefix that is one of them must be accepted, not reported as UnrecognizedEof
pub fn check_c04_known(w: &World, s: &dyn Sut, sentence: &[usize], shape: u8, st: &mut Stats, known: &BTreeSet<Vec<usize>>) -> (Vec<Bad>, Vec<(usize, &'static str, i64)>) {
    let var = w.variant(s);
    let spec = w.spec(s);
    let be = backend(var);
    let mut bad = Vec::new();
    let mut verdicts = Vec::new();
    for k in 0..sentence.len() {
        let toks = &sentence[..k];
        let r = run_case(w, s, toks, shape, Plan::default(), None);
        st.truncations += 1;
        st.digest ^= run_digest(s, toks, shape, &Plan::default(), None, &r).rotate_left(7);
        let want_loc: i64 = if var.builtin {
            text_of(spec, toks, None).0.len() as i64
        } else if var.loc == 2 {
            -1
        } else if k == 0 {
            if var.loc == 1 { -777 } else { 0 }
        } else {
            hi(k - 1) as i64
        };
        let kclass = if k == 0 { "k=0" } else { "k>0" };
        st.shapes.insert(format!("{}|{be}|eof|{kclass}|loc{}", var.module, var.loc));
        let mut problem: Option<String> = None;
        if known.contains(toks) && !matches!(&r.out, Ok(Outcome::Ok(_))) {
            problem = Some(format!("sentence-rejected: this prefix is itself a sampled sentence but the result is {:?}", r.out.as_ref().map(|o| o.kind())));
        }
        // built-in lexer: white space before, between and after the tokens must not move the location
        if var.builtin && problem.is_none() {
            for style in 1..=4u8 {
                let (text, end) = decorated_text(spec, toks, style);
                let ctx = Ctx::new(Plan::default());
                let out = catch_unwind(AssertUnwindSafe(|| s.parse_str(&ctx, &text)));
                st.truncations += 1;
                let good = match (&r.out, &out) {
                    (Ok(Outcome::Ok(a)), Ok(Outcome::Ok(b))) => a == b,
                    (Ok(Outcome::Eof { .. }), Ok(Outcome::Eof { loc, .. })) => *loc as usize == end,
                    _ => false,
                };
                if !good {
                    problem = Some(format!("whitespace-moves-result: text {:?} gives {:?}, the plain text gives {:?} (end of last token is {end})", text, out.as_ref().ok(), r.out.as_ref().ok()));
                    break;
                }
            }
        }
        match &r.out {
            Ok(Outcome::Ok(_)) => verdicts.push((k, "ok", 0)),
            Ok(Outcome::Eof { loc, .. }) => {
                verdicts.push((k, "eof", *loc));
                if problem.is_none() && *loc != want_loc {
                    problem = Some(format!("wrong-location: UnrecognizedEof at {loc}, end of the last token is {want_loc}"));
                }
            }
            Ok(o) => problem = problem.or(Some(format!("wrong-variant: {}", o.kind()))),
            Err(p) => problem = problem.or(Some(format!("panic: {p}"))),
        }
        if !var.builtin {
            let after_end = r.log.iter().any(|e| matches!(e, Ev::PullAfterEnd(_)));
            if problem.is_none() && (after_end || r.pulls != k + 1) {
                problem = Some(format!("extra-pull: {} pulls for {} tokens{}", r.pulls, k, if after_end { ", one after the end of the stream" } else { "" }));
            }
        }
        if let Some(p) = problem {
            let short = p.split(':').next().unwrap_or("").to_string();
            let aux = if short == "sentence-rejected" { Some(k) } else { None };
            bad.push(Bad { property: "C04", key: format!("eof-clause|backend={be}|{kclass}|problem={short}"), detail: format!("sentence cut after {k} of {} tokens: {p}", sentence.len()), plan: Plan::default(), splice: None, shape, aux });
        }
    }
    (bad, verdicts)
}

pub fn case_json(w: &World, s: &dyn Sut, toks: &[usize], b: &Bad) -> Value {
    json!({
        "property": b.property,
        "key": b.key,
        "observed": b.detail,
        "parser": w.name(s),
        "tokens": toks,
        "token_text": toks.iter().map(|t| w.spec(s).terminals.get(*t).cloned().unwrap_or_else(|| "<alien>".into())).collect::<Vec<_>>(),
        "shape": b.shape,
        "plan": {"stream_err": b.plan.stream_err, "act_err": b.plan.act_err},
        "splice": b.splice,
        "eof_sentence": b.property == "C04",
        "known_sentence_prefix": b.aux,
    })
}

/// inputs for one parser: sentences, one-token mutations, random strings
pub fn inputs(w: &World, s: &dyn Sut, rng: &mut Rng, n: usize) -> Vec<(Vec<usize>, bool)> {
    let spec = w.spec(s);
    let start = spec.nts.iter().position(|x| x.name == s.info().start).unwrap();
    let sampler = Sampler::new(spec);
    let mut v = Vec::new();
    if !sampler.productive(start) {
        return v;
    }
    let nterm = spec.terminals.len();
    for i in 0..n {
        let budget = 1 + rng.below(if i % 7 == 0 { 40 } else { 14 }) as usize;
        let sent = sampler.sentence(rng, start, budget);
        match i % 5 {
            0 | 1 => v.push((sent, true)),
            2 => {
                // one-token mutation
                let mut m = sent.clone();
                if !m.is_empty() {
                    let p = rng.below(m.len() as u64) as usize;
                    match rng.below(3) {
                        0 => m[p] = rng.below(nterm as u64) as usize,
                        1 => {
                            m.remove(p);
                        }
                        _ => {
                            let t = m[p];
                            m.insert(p, t);
                        }
                    }
                }
                v.push((m, false));
            }
            3 => {
                // several mutations (drives recovery grammars through multiple recoveries)
                let mut m = sent.clone();
                for _ in 0..rng.range(2, 4) {
                    if m.is_empty() {
                        break;
                    }
                    let p = rng.below(m.len() as u64) as usize;
                    if rng.chance(1, 2) {
                        m[p] = rng.below(nterm as u64) as usize;
                    } else {
                        m.insert(p, rng.below(nterm as u64) as usize);
                    }
                }
                v.push((m, false));
            }
            _ => {
                let len = rng.below(12) as usize;
                let mut m: Vec<usize> = (0..len).map(|_| rng.below(nterm as u64) as usize).collect();
                // draw unconditionally: all back ends of one grammar must see the same input stream
                let alien = rng.chance(1, 6);
                let p = rng.below(m.len().max(1) as u64) as usize;
                if !w.variant(s).builtin && alien && !m.is_empty() {
                    m[p] = usize::MAX; // a token the grammar does not map
                }
                v.push((m, false));
            }
        }
    }
    v
}

pub struct Summary {
    pub stats: Stats,
    /// first failing case per key: (parser index, tokens, Bad)
    pub bad: BTreeMap<String, (usize, Vec<usize>, Bad, u64)>,
    pub disagreements: u64,
}

pub fn sweep(w: &World, seed: u64, per_parser: usize, workers: usize) -> Summary {
    use std::sync::atomic::{AtomicUsize, Ordering};
    use std::sync::Mutex;
    let next = AtomicUsize::new(0);
    let total = Mutex::new(Summary { stats: Stats::default(), bad: BTreeMap::new(), disagreements: 0 });
    // eof verdicts per (spec, start, sentence#) to compare back ends
    let verdicts: Mutex<BTreeMap<(usize, String, usize), Vec<(String, Vec<(usize, &'static str, i64)>)>>> = Mutex::new(BTreeMap::new());
    std::thread::scope(|sc| {
        for _ in 0..workers.max(1) {
            sc.spawn(|| loop {
                let i = next.fetch_add(1, Ordering::SeqCst);
                if i >= w.suts.len() {
                    break;
                }
                let s = w.suts[i].as_ref();
                let var = w.variant(s);
                let spec = w.spec(s);
                // the input stream of a parser depends on (seed, spec, start symbol) only, so that all
                // back ends of one grammar see the same inputs and can be compared
                let mut rng = Rng::derive(seed, (var.spec as u64) * 1000 + spec.nts.iter().position(|n| n.name == s.info().start).unwrap_or(0) as u64);
                let ins = inputs(w, s, &mut rng, per_parser);
                let known: BTreeSet<Vec<usize>> = ins.iter().filter(|(_, is_sentence)| *is_sentence).map(|(t, _)| t.clone()).collect();
                let mut st = Stats::default();
                let mut local: Vec<(Vec<usize>, Bad)> = Vec::new();
                let mut frng = Rng::derive(seed, 77_000 + i as u64);
                for (n, (toks, is_sentence)) in ins.iter().enumerate() {
                    let shapes: &[u8] = if var.builtin { &[0] } else { &[0, 1] };
                    for &shape in shapes {
                        for b in check_c17(w, s, toks, shape, &mut frng, &mut st) {
                            local.push((toks.clone(), b));
                        }
                        if *is_sentence && !spec.has_recovery && !toks.is_empty() {
                            let (bads, v) = check_c04_known(w, s, toks, shape, &mut st, &known);
                            for b in bads {
                                local.push((toks.clone(), b));
                            }
                            if shape == 0 {
                                verdicts.lock().unwrap().entry((var.spec, s.info().start.to_string(), n)).or_default().push((var.module.clone(), v));
                            }
                        }
                    }
                }
                let mut t = total.lock().unwrap();
                t.stats.merge(&st);
                for (toks, b) in local {
                    let e = t.bad.entry(b.key.clone()).or_insert_with(|| (i, toks.clone(), b.clone(), 0));
                    e.3 += 1;
                    if toks.len() < e.1.len() {
                        *e = (i, toks, b, e.3);
                    }
                }
            });
        }
    });
    let mut sum = total.into_inner().unwrap();
    // back ends must agree on Ok vs UnrecognizedEof for every prefix
    for ((spec, start, _n), list) in verdicts.into_inner().unwrap() {
        if let Some((m0, v0)) = list.first() {
            for (m, v) in list.iter().skip(1) {
                let k0: Vec<(usize, &str)> = v0.iter().map(|x| (x.0, x.1)).collect();
                let k1: Vec<(usize, &str)> = v.iter().map(|x| (x.0, x.1)).collect();
                if k0 != k1 {
                    sum.disagreements += 1;
                    let key = "eof-clause|back-ends-disagree".to_string();
                    let idx = w.suts.iter().position(|s| w.variant(s.as_ref()).module == *m && s.info().start == start).unwrap_or(0);
                    sum.bad.entry(key.clone()).or_insert_with(|| {
                        (idx, vec![], Bad { property: "C04", key, detail: format!("spec {} start {start}: {m0} gives {:?}, {m} gives {:?}", w.specs[spec].name, k0, k1), plan: Plan::default(), splice: None, shape: 0, aux: None }, 1)
                    });
                }
            }
        }
    }
    sum
}
