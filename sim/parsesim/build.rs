// Renders the grammar corpus from spec.rs, compiles it with the working tree's
// lalrpop, and emits corpus.rs (one module + adapter per accepted variant).
use std::fmt::Write as _;
use std::path::PathBuf;

include!("spec.rs");

fn main() {
    println!("cargo:rerun-if-changed=spec.rs");
    println!("cargo:rerun-if-changed=build.rs");
    println!("cargo:rerun-if-changed=/repo/lalrpop/src");
    println!("cargo:rerun-if-changed=/repo/lalrpop-util/src");
    let out = PathBuf::from(std::env::var("OUT_DIR").unwrap());
    let gdir = out.join("grammars");
    let _ = std::fs::remove_dir_all(&gdir);
    std::fs::create_dir_all(&gdir).unwrap();
    let specs = all_specs();
    let variants = all_variants(&specs);
    let mut corpus = String::new();
    let mut accepted = 0;
    let mut rejected = Vec::new();
    for (vi, var) in variants.iter().enumerate() {
        let spec = &specs[var.spec];
        let text = render(spec, var);
        let path = gdir.join(format!("{}.lalrpop", var.module));
        std::fs::write(&path, &text).unwrap();
        let r = lalrpop::Configuration::new()
            .set_out_dir(&gdir)
            .force_build(true)
            .log_quiet()
            .process_file(&path);
        if r.is_err() {
            // acceptance is not a claimed property: skip and count
            rejected.push(var.module.clone());
            continue;
        }
        accepted += 1;
        let rs = gdir.join(format!("{}.rs", var.module));
        writeln!(corpus, "#[allow(clippy::all, unused, non_snake_case)] pub mod {} {{ include!({:?}); }}", var.module, rs.to_string_lossy()).unwrap();
        // adapters: one per public nonterminal
        for nt in spec.nts.iter().filter(|n| n.public) {
            let ty = format!("{}::{}Parser", var.module, nt.name);
            let aname = format!("A_{}_{}", var.module, nt.name);
            writeln!(corpus, "#[allow(non_camel_case_types)] pub struct {aname}(pub {ty});").unwrap();
            if var.builtin {
                writeln!(corpus, "impl crate::sut::Sut for {aname} {{ fn info(&self) -> crate::sut::Info {{ crate::sut::Info {{ variant: {vi}, start: {:?} }} }} fn parse_str(&self, ctx: &crate::rt::Ctx, input: &str) -> crate::rt::Outcome {{ crate::rt::norm_lex(self.0.parse(ctx, input)) }} fn parse_toks(&self, _ctx: &crate::rt::Ctx, _toks: &[crate::rt::Item], _shape: u8) -> crate::rt::Outcome {{ unreachable!() }} }}", nt.name).unwrap();
            } else {
                let (stream_ok, stream_res) = match var.loc {
                    0 => ("crate::rt::stream_loc_usize_plain", "crate::rt::stream_loc_usize_result"),
                    1 => ("crate::rt::stream_loc_struct_plain", "crate::rt::stream_loc_struct_result"),
                    _ => ("crate::rt::stream_noloc_plain", "crate::rt::stream_noloc_result"),
                };
                writeln!(corpus, "impl crate::sut::Sut for {aname} {{ fn info(&self) -> crate::sut::Info {{ crate::sut::Info {{ variant: {vi}, start: {:?} }} }} fn parse_str(&self, _ctx: &crate::rt::Ctx, _input: &str) -> crate::rt::Outcome {{ unreachable!() }} fn parse_toks(&self, ctx: &crate::rt::Ctx, toks: &[crate::rt::Item], shape: u8) -> crate::rt::Outcome {{ if shape == 0 {{ crate::rt::norm_ext(self.0.parse(ctx, {stream_ok}(ctx, toks))) }} else {{ crate::rt::norm_ext(self.0.parse(ctx, {stream_res}(ctx, toks))) }} }} }}", nt.name).unwrap();
            }
            writeln!(corpus, "const _: fn() = || {{ fn assert_send_sync<T: Send + Sync>() {{}} assert_send_sync::<{ty}>(); }}; // C27 send-sync assertion {aname}").unwrap();
        }
    }
    // registry
    writeln!(corpus, "pub fn registry() -> Vec<Box<dyn crate::sut::Sut>> {{ let mut v: Vec<Box<dyn crate::sut::Sut>> = Vec::new();").unwrap();
    for var in variants.iter() {
        if rejected.contains(&var.module) {
            continue;
        }
        let spec = &specs[var.spec];
        for nt in spec.nts.iter().filter(|n| n.public) {
            writeln!(corpus, "v.push(Box::new(A_{}_{}({}::{}Parser::new())));", var.module, nt.name, var.module, nt.name).unwrap();
        }
    }
    writeln!(corpus, "v }}").unwrap();
    // construct a single parser by name (Miri mode: building all lexer DFAs would take minutes)
    writeln!(corpus, "pub fn make(name: &str) -> Option<Box<dyn crate::sut::Sut>> {{ match name {{").unwrap();
    for var in variants.iter() {
        if rejected.contains(&var.module) {
            continue;
        }
        let spec = &specs[var.spec];
        for nt in spec.nts.iter().filter(|n| n.public) {
            writeln!(corpus, "{:?} => Some(Box::new(A_{}_{}({}::{}Parser::new()))),", format!("{}::{}", var.module, nt.name), var.module, nt.name, var.module, nt.name).unwrap();
        }
    }
    writeln!(corpus, "_ => None }} }}").unwrap();
    writeln!(corpus, "pub const REJECTED: &[&str] = &{:?};", rejected).unwrap();
    writeln!(corpus, "pub const ACCEPTED: usize = {accepted};").unwrap();
    std::fs::write(out.join("corpus.rs"), corpus).unwrap();
    for r in &rejected {
        println!("cargo:warning=corpus variant {r} was rejected by lalrpop and is skipped");
    }
}
