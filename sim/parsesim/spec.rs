// Shared between build.rs (renders + compiles the corpus) and the simulator
// (samples sentences from the very same data).  `include!`d by both.

#[derive(Clone, Debug, PartialEq)]
pub enum Sym {
    T(usize),    // terminal index into Spec::terminals
    N(usize),    // nonterminal index into Spec::nts
    Recover,     // the `!` error-recovery terminal
    Star(usize), // `Nt*`  (LALRPOP generates a helper nonterminal)
    Plus(usize), // `Nt+`
    Opt(usize),  // `Nt?`
}

#[derive(Clone, Debug)]
pub struct Prod {
    pub id: u32,
    pub syms: Vec<Sym>,
    pub fallible: bool,
}

#[derive(Clone, Debug)]
pub struct Nt {
    pub name: String,
    pub public: bool,
    pub inline: bool,
    /// the nonterminal has type `()` (its value is not handed to the parent's action)
    pub unit: bool,
    pub prods: Vec<Prod>,
}

#[derive(Clone, Debug)]
pub struct Spec {
    pub name: String,
    pub terminals: Vec<String>,
    pub nts: Vec<Nt>,
    pub has_recovery: bool,
    /// built-in lexer only: terminal index -> (regex, sample text); other terminals are literals
    pub regex: Vec<(usize, String, String)>,
    /// some regex terminal matches the empty string (the lexer then never reports InvalidToken)
    pub empty_match: bool,
}

impl Spec {
    /// text of terminal `t` as it appears in an input string for the built-in lexer
    pub fn sample(&self, t: usize) -> &str {
        if let Some((_, _, s)) = self.regex.iter().find(|(i, _, _)| *i == t) {
            return s.as_str();
        }
        self.terminals.get(t).map(|x| x.as_str()).unwrap_or("@")
    }
}

/// One compiled variant of a spec.
#[derive(Clone, Debug, PartialEq)]
pub struct Variant {
    pub spec: usize,
    pub module: String,
    pub ascent: bool,
    pub lalr: bool,
    /// built-in lexer (input is a string) vs extern token enum
    pub builtin: bool,
    /// location type: 0 = usize, 1 = struct `Loc` (Default = Loc(-777)), 2 = none (no `type Location`)
    pub loc: u8,
}

pub const TERMINAL_NAMES: &[&str] = &["a", "b", "c", "d", "e", "f", "g", "h", "n", "x", "+", "*", "(", ")", ";", ",", "=", "{", "}", "id", "[", "]", "s", "q"];

fn t(spec_terms: &mut Vec<String>, name: &str) -> Sym {
    if let Some(i) = spec_terms.iter().position(|x| x == name) {
        Sym::T(i)
    } else {
        spec_terms.push(name.to_string());
        Sym::T(spec_terms.len() - 1)
    }
}

struct B {
    name: String,
    terms: Vec<String>,
    nts: Vec<Nt>,
    next_id: u32,
    rec: bool,
    regex: Vec<(usize, String, String)>,
    empty_match: bool,
}

impl B {
    fn new(name: &str) -> B {
        B { name: name.to_string(), terms: vec![], nts: vec![], next_id: 1, rec: false, regex: vec![], empty_match: false }
    }
    fn nt(&mut self, name: &str, public: bool, inline: bool) -> usize {
        self.nts.push(Nt { name: name.to_string(), public, inline, unit: false, prods: vec![] });
        self.nts.len() - 1
    }
    fn nt_unit(&mut self, name: &str, inline: bool) -> usize {
        self.nts.push(Nt { name: name.to_string(), public: false, inline, unit: true, prods: vec![] });
        self.nts.len() - 1
    }
    /// production written as words: "T" names are nonterminals if they match an nt name,
    /// "!" is recovery, everything else a terminal; a trailing "?" word makes it fallible
    fn p(&mut self, nt: usize, words: &str) {
        let mut syms = Vec::new();
        let mut fallible = false;
        for w in words.split_whitespace() {
            if w == "?" {
                fallible = true;
            } else if w == "!" {
                syms.push(Sym::Recover);
                self.rec = true;
            } else if let Some(i) = self.nts.iter().position(|n| n.name == w) {
                syms.push(Sym::N(i));
            } else if w.len() > 1 && (w.ends_with('*') || w.ends_with('+') || w.ends_with('?')) && self.nts.iter().any(|n| n.name == w[..w.len() - 1]) {
                let i = self.nts.iter().position(|n| n.name == w[..w.len() - 1]).unwrap();
                syms.push(match w.as_bytes()[w.len() - 1] {
                    b'*' => Sym::Star(i),
                    b'+' => Sym::Plus(i),
                    _ => Sym::Opt(i),
                });
            } else {
                let s = t(&mut self.terms, w);
                syms.push(s);
            }
        }
        let id = self.next_id;
        self.next_id += 1;
        self.nts[nt].prods.push(Prod { id, syms, fallible });
    }
    /// declare terminal `name` as a regex for built-in-lexer variants
    fn rx(&mut self, name: &str, regex: &str, sample: &str, matches_empty: bool) {
        let i = match t(&mut self.terms, name) {
            Sym::T(i) => i,
            _ => unreachable!(),
        };
        self.regex.push((i, regex.to_string(), sample.to_string()));
        self.empty_match |= matches_empty;
    }
    fn done(self) -> Spec {
        Spec { name: self.name, terminals: self.terms, nts: self.nts, has_recovery: self.rec, regex: self.regex, empty_match: self.empty_match }
    }
}

fn hand_specs() -> Vec<Spec> {
    let mut v = Vec::new();
    {
        // expression tiers, fallible leaf and fallible binary node
        let mut b = B::new("expr");
        let e = b.nt("Expr", true, false);
        let tm = b.nt("Term", false, false);
        let f = b.nt("Factor", false, false);
        b.p(e, "Expr + Term ?");
        b.p(e, "Term");
        b.p(tm, "Term * Factor");
        b.p(tm, "Factor");
        b.p(f, "n ?");
        b.p(f, "( Expr )");
        v.push(b.done());
    }
    {
        // lists with an empty production at the start
        let mut b = B::new("list");
        let s = b.nt("Seq", true, false);
        let l = b.nt("Items", false, false);
        b.p(s, "[ Items ]");
        b.p(l, "");
        b.p(l, "Items x , ?");
        v.push(b.done());
    }
    {
        // statements with `!` recovery at statement level
        let mut b = B::new("stmts");
        let p = b.nt("Prog", true, false);
        let st = b.nt("Stmt", false, false);
        let e = b.nt("Rhs", false, false);
        b.p(p, "");
        b.p(p, "Prog Stmt");
        b.p(st, "id = Rhs ; ?");
        b.p(st, "{ Prog }");
        b.p(st, "! ;");
        b.p(e, "n");
        b.p(e, "Rhs + n ?");
        v.push(b.done());
    }
    {
        // nested brackets, recovery at two depths
        let mut b = B::new("nest");
        let top = b.nt("Top", true, false);
        let i = b.nt("Item", false, false);
        b.p(top, "Item");
        b.p(top, "Top , Item ?");
        b.p(i, "n ?");
        b.p(i, "( Item )");
        b.p(i, "( ! )");
        b.p(i, "[ Top ]");
        b.p(i, "[ ! ]");
        v.push(b.done());
    }
    {
        // inlined fallible productions at one and two levels
        let mut b = B::new("inl");
        let s = b.nt("Start", true, false);
        let u = b.nt("Unit", false, false);
        let i1 = b.nt("Inl", false, true);
        let i2 = b.nt("Deep", false, true);
        b.p(i1, "a ?");
        b.p(i1, "b");
        b.p(i2, "c Inl d");
        b.p(u, "Inl");
        b.p(u, "Deep e");
        b.p(u, "x Inl Inl ?");
        b.p(s, "Unit");
        b.p(s, "Start ; Unit");
        v.push(b.done());
    }
    {
        // several public symbols over shared nonterminals
        let mut b = B::new("multi");
        let a = b.nt("Alpha", true, false);
        let bb = b.nt("Beta", true, false);
        let c = b.nt("Core", false, false);
        b.p(a, "a Core ?");
        b.p(a, "Alpha a");
        b.p(bb, "b Core Core");
        b.p(bb, "( Beta )");
        b.p(c, "n");
        b.p(c, "x Core ?");
        v.push(b.done());
    }
    {
        // empty productions at the end, right recursion
        let mut b = B::new("tail");
        let a = b.nt("Head", true, false);
        let t2 = b.nt("Tail", false, false);
        b.p(a, "a Tail ?");
        b.p(t2, "");
        b.p(t2, "b Tail");
        b.p(t2, "c Tail ?");
        v.push(b.done());
    }
    {
        // fallible start reduction, keyword statements with braces
        let mut b = B::new("kw");
        let s = b.nt("Unitk", true, false);
        let st = b.nt("St", false, false);
        let bl = b.nt("Block", false, false);
        let sts = b.nt("Sts", false, false);
        b.p(s, "s Block ?");
        b.p(bl, "{ }");
        b.p(bl, "{ Sts }");
        b.p(sts, "St");
        b.p(sts, "Sts St ?");
        b.p(st, "q n ;");
        b.p(st, "g ( n ) Block");
        b.p(st, "g ( n ) Block e Block ?");
        v.push(b.done());
    }
    {
        // recovery that needs reductions before the error token is shifted
        let mut b = B::new("rec2");
        let s = b.nt("Doc", true, false);
        let r = b.nt("Row", false, false);
        let c = b.nt("Cell", false, false);
        b.p(s, "Row");
        b.p(s, "Doc ; Row ?");
        b.p(r, "Cell");
        b.p(r, "Row , Cell");
        b.p(r, "!");
        b.p(c, "n ?");
        b.p(c, "x n");
        b.p(c, "( Row )");
        v.push(b.done());
    }
    {
        // recovery productions that are themselves fallible, at two levels, plus an LALR-merge shape
        let mut b = B::new("recfal");
        let p = b.nt("Unitr", true, false);
        let st = b.nt("Str", false, false);
        let e = b.nt("Er", false, false);
        b.p(p, "Str");
        b.p(p, "Unitr Str ?");
        b.p(st, "id = Er ;");
        b.p(st, "! ; ?");
        b.p(st, "{ Unitr }");
        b.p(st, "{ ! } ?");
        b.p(e, "n ?");
        b.p(e, "( Er )");
        b.p(e, "Er + n");
        v.push(b.done());
    }
    {
        // two different inlined fallible nonterminals in one production, fallible outer action
        let mut b = B::new("inl2");
        let s = b.nt("Pairs", true, false);
        let pr = b.nt("Pair", false, false);
        let i1 = b.nt("Lo", false, true);
        let i2 = b.nt("Hi", false, true);
        b.p(i1, "a ?");
        b.p(i1, "b ?");
        b.p(i2, "c ?");
        b.p(i2, "d");
        b.p(pr, "Lo = Hi ?");
        b.p(pr, "Lo , Lo , Hi");
        b.p(pr, "( Pair )");
        b.p(s, "Pair");
        b.p(s, "Pairs ; Pair ?");
        v.push(b.done());
    }
    {
        // nullable nonterminals in the middle and at both ends
        let mut b = B::new("nullable");
        let s = b.nt("Decl", true, false);
        let m = b.nt("Mods", false, false);
        let o = b.nt("OptTy", false, false);
        let t = b.nt("Trail", false, false);
        b.p(s, "Mods id OptTy Trail ?");
        b.p(m, "");
        b.p(m, "Mods q");
        b.p(o, "");
        b.p(o, "= n ?");
        b.p(t, "");
        b.p(t, "; Trail");
        v.push(b.done());
    }
    {
        // an empty production reduced on a merged lookahead set: the state after "e" is shared by a
        // context where end of input may follow and one where it may not
        let mut b = B::new("mergeopt");
        let s2 = b.nt("Pick", true, false);
        let e = b.nt("Body", false, false);
        let o = b.nt("Opt", false, false);
        b.p(s2, "a Body");
        b.p(s2, "b Body c");
        b.p(e, "e Opt");
        b.p(e, "e x y");
        b.p(o, "");
        b.p(o, "x");
        v.push(b.done());
    }
    {
        // the same with a nullable list and two nested contexts
        let mut b = B::new("mergelist");
        let s2 = b.nt("Ctx", true, false);
        let l = b.nt("Tailx", false, false);
        b.p(s2, "a n Tailx");
        b.p(s2, "b n Tailx c");
        b.p(s2, "( Ctx ) Tailx d");
        b.p(l, "");
        b.p(l, "Tailx x ?");
        v.push(b.done());
    }
    {
        // regex terminals for the built-in lexer: numbers, identifiers next to keyword literals, and a
        // terminal that can match the empty string (in a position where it cannot repeat)
        let mut b = B::new("regex");
        b.rx("num", "[0-9]+", "42", false);
        b.rx("word", "[a-z]*", "abc", true);
        b.rx("str", "\\x22[^\\x22]*\\x22", "\"s t\"", false);
        b.rx("uni", "[^\\x00-\\x7f]+", "\u{feff}\u{e9}", false);
        let s2 = b.nt("Bind", true, false);
        let vnt = b.nt("Valx", false, false);
        b.p(s2, "LET word = Valx ; ?");
        b.p(s2, "SHOW Valx");
        b.p(s2, "uni = Valx ;");
        b.p(vnt, "num");
        b.p(vnt, "str");
        b.p(vnt, "( Valx )");
        b.p(vnt, "Valx + num ?");
        v.push(b.done());
    }
    {
        // two nonterminals with the same right-hand side, told apart by the lookahead alone: one is
        // reduced before every terminal, the other only at end of input
        let mut b = B::new("lookahead");
        let it = b.nt("Itemk", true, false);
        let k = b.nt("Keyk", false, false);
        let tg = b.nt("Tagk", false, false);
        let vl = b.nt("Valk", false, false);
        b.p(it, "Keyk = Valk ?");
        b.p(it, "Keyk Valk");
        b.p(it, "Tagk");
        b.p(k, "w");
        b.p(tg, "w ?");
        b.p(vl, "w");
        b.p(vl, "n");
        v.push(b.done());
    }
    {
        // unit-typed nonterminals (type `()`), inlined and not, with fallible actions
        let mut b = B::new("unitinl");
        let p = b.nt("Progu", true, false);
        let st = b.nt("Stu", false, false);
        let gu = b.nt_unit("Gu", true);
        let hu = b.nt_unit("Hu", false);
        b.p(gu, "x ?");
        b.p(gu, "c");
        b.p(hu, "d ?");
        b.p(hu, "e Hu");
        b.p(st, "a Gu n ; ?");
        b.p(st, "b Gu? n ;");
        b.p(st, "q Hu Gu ;");
        b.p(p, "Stu+");
        v.push(b.done());
    }
    {
        // EBNF suffixes: LALRPOP turns `X*`, `X+`, `X?` into generated helper nonterminals
        let mut b = B::new("ebnf");
        let d = b.nt("Docx", true, false);
        let e = b.nt("Entry", false, false);
        let vv = b.nt("Valy", false, false);
        b.p(d, "Entry*");
        b.p(e, "id = Valy ; ?");
        b.p(e, "{ Entry+ }");
        b.p(e, "q Valy? ; ?");
        b.p(vv, "n ?");
        b.p(vv, "( Valy )");
        v.push(b.done());
    }
    {
        // nullable start symbol: the empty input is a sentence, and so is every prefix that ends a list
        let mut b = B::new("optlist");
        let s2 = b.nt("Elems", true, false);
        let e = b.nt("Elem", false, false);
        b.p(s2, "");
        b.p(s2, "Elems Elem ?");
        b.p(e, "x");
        b.p(e, "( Elems )");
        b.p(e, "λ → x ?");
        v.push(b.done());
    }
    v
}

struct Lcg(u64);
impl Lcg {
    fn next(&mut self) -> u64 {
        self.0 = self.0.wrapping_add(0x9E3779B97F4A7C15);
        let mut z = self.0;
        z = (z ^ (z >> 30)).wrapping_mul(0xBF58476D1CE4E5B9);
        z = (z ^ (z >> 27)).wrapping_mul(0x94D049BB133111EB);
        z ^ (z >> 31)
    }
    fn below(&mut self, n: u64) -> u64 {
        ((self.next() as u128 * n as u128) >> 64) as u64
    }
}

/// "distinct leading terminal" grammars: every production of a nonterminal starts with its
/// own terminal, so the grammar is LL(1), hence accepted by every construction algorithm.
fn generated_specs(count: usize) -> Vec<Spec> {
    let mut out = Vec::new();
    for gi in 0..count {
        let mut r = Lcg(0xC0FFEE ^ (gi as u64) << 17);
        let nnt = 3 + r.below(4) as usize;
        let nterm = 6 + r.below(8) as usize;
        let terms: Vec<String> = TERMINAL_NAMES.iter().take(nterm).map(|s| s.to_string()).collect();
        let mut nts: Vec<Nt> = Vec::new();
        let mut id = 1u32;
        // leaf nonterminals (only terminals) come last and may be inlined
        for ni in 0..nnt {
            let leaf = ni + 1 == nnt || (ni > 0 && r.below(4) == 0);
            let nprod = 2 + r.below(3) as usize;
            let mut prods = Vec::new();
            let mut lead: Vec<usize> = (0..nterm).collect();
            // shuffle leads
            for i in (1..lead.len()).rev() {
                let j = r.below(i as u64 + 1) as usize;
                lead.swap(i, j);
            }
            for pi in 0..nprod {
                let mut syms = vec![Sym::T(lead[pi])];
                let extra = r.below(4) as usize;
                for _ in 0..extra {
                    // production 0 holds terminals only, so every nonterminal derives a sentence
                    if !leaf && pi > 0 && r.below(2) == 0 {
                        // reference any nonterminal (recursion allowed, guarded by the leading terminal)
                        syms.push(Sym::N(r.below(nnt as u64) as usize));
                    } else {
                        syms.push(Sym::T(r.below(nterm as u64) as usize));
                    }
                }
                prods.push(Prod { id, syms, fallible: r.below(3) == 0 });
                id += 1;
            }
            nts.push(Nt { name: format!("N{ni}"), public: ni == 0, inline: leaf && ni > 0 && r.below(2) == 0, unit: false, prods });
        }
        // a second public symbol now and then
        if r.below(3) == 0 && nnt > 2 {
            nts[1].public = true;
            nts[1].inline = false;
        }
        out.push(Spec { name: format!("gen{gi}"), terminals: terms, nts, has_recovery: false, regex: vec![], empty_match: false });
    }
    out
}

pub fn all_specs() -> Vec<Spec> {
    let mut v = hand_specs();
    v.extend(generated_specs(16));
    v
}

/// Which variants of each spec are compiled.
pub fn all_variants(specs: &[Spec]) -> Vec<Variant> {
    let mut v = Vec::new();
    for (si, s) in specs.iter().enumerate() {
        let base = s.name.clone();
        // extern tokens, table driven, usize locations
        v.push(Variant { spec: si, module: format!("{base}_tab"), ascent: false, lalr: false, builtin: false, loc: 0 });
        // recursive ascent (no `!` support there), struct locations (Copy)
        if !s.has_recovery {
            v.push(Variant { spec: si, module: format!("{base}_asc"), ascent: true, lalr: false, builtin: false, loc: 1 });
        }
        // LALR(1), struct locations
        if si % 2 == 0 {
            v.push(Variant { spec: si, module: format!("{base}_lalr"), ascent: false, lalr: true, builtin: false, loc: 1 });
        }
        // no location type at all
        if si % 3 == 0 {
            v.push(Variant { spec: si, module: format!("{base}_noloc"), ascent: false, lalr: false, builtin: false, loc: 2 });
        }
        if si % 3 == 1 && !s.has_recovery {
            v.push(Variant { spec: si, module: format!("{base}_ascnoloc"), ascent: true, lalr: false, builtin: false, loc: 2 });
        }
        // built-in lexer
        if si % 2 == 1 || si < 4 || !s.regex.is_empty() {
            v.push(Variant { spec: si, module: format!("{base}_lex"), ascent: false, lalr: false, builtin: true, loc: 0 });
        }
        if (si % 4 == 0 || !s.regex.is_empty()) && !s.has_recovery {
            v.push(Variant { spec: si, module: format!("{base}_lexasc"), ascent: true, lalr: false, builtin: true, loc: 0 });
        }
    }
    v
}

fn rust_string(s: &str) -> String {
    format!("{:?}", s)
}

/// Render one variant as `.lalrpop` text.
pub fn render(spec: &Spec, var: &Variant) -> String {
    let mut g = String::new();
    g.push_str("use crate::rt::{Ctx, Node, UserErr};\n");
    if !var.builtin {
        g.push_str("use crate::rt::Tok;\n");
        if var.loc == 1 {
            g.push_str("use crate::rt::Loc;\n");
        }
    }
    g.push_str("use lalrpop_util::ErrorRecovery;\n\n");
    if var.ascent {
        g.push_str("#[recursive_ascent]\n");
    }
    if var.lalr {
        g.push_str("#[LALR]\n");
    }
    g.push_str("grammar<'c>(ctx: &'c Ctx);\n\n");
    let (loc_ty, tok_ty) = if var.builtin {
        ("usize".to_string(), "Token<'input>".to_string())
    } else {
        (match var.loc { 0 => "usize".to_string(), 1 => "Loc".to_string(), _ => "()".to_string() }, "Tok".to_string())
    };
    if var.builtin {
        g.push_str("extern {\n    type Error = UserErr;\n}\n\n");
    } else {
        g.push_str("extern {\n");
        if var.loc != 2 {
            g.push_str(&format!("    type Location = {loc_ty};\n"));
        }
        g.push_str("    type Error = UserErr;\n    enum Tok {\n");
        for (i, t) in spec.terminals.iter().enumerate() {
            g.push_str(&format!("        {} => Tok::T{i},\n", rust_string(t)));
        }
        g.push_str("    }\n}\n\n");
    }
    let _ = tok_ty;
    for nt in &spec.nts {
        if nt.inline {
            g.push_str("#[inline]\n");
        }
        g.push_str(&format!("{}{}: {} = {{\n", if nt.public { "pub " } else { "" }, nt.name, if nt.unit { "()" } else { "Node" }));
        for p in &nt.prods {
            let mut names = Vec::new();
            let mut line = String::from("   ");
            for (k, s) in p.syms.iter().enumerate() {
                match s {
                    Sym::T(i) => {
                        match spec.regex.iter().find(|(j, _, _)| j == i) {
                            Some((_, re, _)) if var.builtin => line.push_str(&format!(" r\"{re}\"")),
                            _ => line.push_str(&format!(" {}", rust_string(&spec.terminals[*i]))),
                        }
                    }
                    Sym::N(i) if spec.nts[*i].unit => line.push_str(&format!(" {}", spec.nts[*i].name)),
                    Sym::N(i) => {
                        line.push_str(&format!(" <v{k}:{}>", spec.nts[*i].name));
                        names.push(format!("v{k}"));
                    }
                    Sym::Recover => {
                        line.push_str(&format!(" <v{k}:!>"));
                        names.push(format!("ctx.rec(v{k})"));
                    }
                    Sym::Star(i) | Sym::Plus(i) | Sym::Opt(i) if spec.nts[*i].unit => {
                        let suffix = match s {
                            Sym::Star(_) => "*",
                            Sym::Plus(_) => "+",
                            _ => "?",
                        };
                        line.push_str(&format!(" {}{suffix}", spec.nts[*i].name));
                    }
                    Sym::Star(i) | Sym::Plus(i) | Sym::Opt(i) => {
                        let suffix = match s {
                            Sym::Star(_) => "*",
                            Sym::Plus(_) => "+",
                            _ => "?",
                        };
                        line.push_str(&format!(" <v{k}:{}{suffix}>", spec.nts[*i].name));
                        // all children of a repetition / option are folded into one node
                        names.push(format!("ctx.fold(v{k}.into_iter().collect())"));
                    }
                }
            }
            let kids = names.join(", ");
            // the error an action returns may be ANY ParseError variant, not only `User`
            if p.fallible && nt.unit {
                line.push_str(&format!(" =>? ctx.try_act({}, vec![{kids}]).map(|_| ()).map_err(|error| ctx.wrap(error)),\n", p.id));
            } else if p.fallible {
                line.push_str(&format!(" =>? ctx.try_act({}, vec![{kids}]).map_err(|error| ctx.wrap(error)),\n", p.id));
            } else if nt.unit {
                line.push_str(&format!(" => {{ ctx.act({}, vec![{kids}]); }},\n", p.id));
            } else {
                line.push_str(&format!(" => ctx.act({}, vec![{kids}]),\n", p.id));
            }
            g.push_str(&line);
        }
        g.push_str("};\n\n");
    }
    g
}
