//! buildnode -- one simulated build invocation (the "node" of engine A).
//!
//! Usage: buildnode <job.json>
//!
//! The job file lives outside the simulated world (so opening it is not an
//! in-world operation).  It lists `Configuration` calls to perform in order;
//! after each call one JSON line is appended to `result` (also outside the
//! world).  The process then exits 0; the simulator reads verdicts from the
//! result file, never from the exit status (which it uses only to see a kill).

use serde::Deserialize;
use std::collections::HashSet;
use std::io::Write;
use std::panic::{self, AssertUnwindSafe};
use std::sync::Mutex;

#[derive(Deserialize)]
struct Job {
    result: String,
    /// keep one `Configuration` value per distinct setting and reuse it for later calls (a
    /// long-lived process that builds again and again), instead of a fresh one per call
    #[serde(default)]
    reuse_config: bool,
    #[serde(default)]
    canary: bool,
    /// number of 64-byte heap blocks leaked before doing anything (address shift)
    #[serde(default)]
    leak: u32,
    calls: Vec<Call>,
}

#[derive(Deserialize)]
struct Call {
    entry: String,
    #[serde(default)]
    path: Option<String>,
    #[serde(default)]
    in_dir: Option<String>,
    #[serde(default)]
    out_dir: Option<String>,
    #[serde(default)]
    cargo_conventions: bool,
    #[serde(default)]
    in_source_tree: bool,
    #[serde(default)]
    force: bool,
    #[serde(default)]
    report: bool,
    #[serde(default)]
    comments: bool,
    #[serde(default = "yes")]
    whitespace: bool,
    #[serde(default)]
    rerun: bool,
    #[serde(default)]
    features: Option<Vec<String>>,
    #[serde(default)]
    macro_limit: Option<u16>,
    /// entry == "write_file": the node itself overwrites `path` with these bytes (hex) between two calls
    #[serde(default)]
    write_hex: Option<String>,
}

fn yes() -> bool {
    true
}

static LAST_PANIC: Mutex<String> = Mutex::new(String::new());

fn json_str(s: &str) -> String {
    serde_json::to_string(s).unwrap()
}

fn unhex(s: &str) -> Vec<u8> {
    (0..s.len() / 2).filter_map(|i| u8::from_str_radix(&s[2 * i..2 * i + 2], 16).ok()).collect()
}

fn settings_key(c: &Call) -> String {
    format!("{:?}|{:?}|{}|{}|{}|{}|{}|{}|{}|{:?}|{:?}", c.in_dir, c.out_dir, c.cargo_conventions, c.in_source_tree, c.force, c.report, c.comments, c.whitespace, c.rerun, c.features, c.macro_limit)
}

fn make_config(c: &Call) -> lalrpop::Configuration {
    let mut cfg = lalrpop::Configuration::new();
    cfg.never_use_colors();
    if c.cargo_conventions {
        cfg.use_cargo_dir_conventions();
    }
    if c.in_source_tree {
        cfg.generate_in_source_tree();
    }
    if let Some(d) = &c.in_dir {
        cfg.set_in_dir(d.as_str());
    }
    if let Some(d) = &c.out_dir {
        cfg.set_out_dir(d.as_str());
    }
    cfg.force_build(c.force);
    cfg.emit_report(c.report);
    cfg.emit_comments(c.comments);
    cfg.emit_whitespace(c.whitespace);
    cfg.emit_rerun_directives(c.rerun);
    if let Some(f) = &c.features {
        cfg.set_features(f.iter().cloned());
    }
    if let Some(l) = c.macro_limit {
        cfg.set_macro_recursion_limit(l);
    }
    cfg
}

fn run_call(c: &Call, cache: &mut Option<std::collections::HashMap<String, lalrpop::Configuration>>) -> Result<(), String> {
    if c.entry == "write_file" {
        let p = c.path.clone().unwrap_or_default();
        let bytes = unhex(c.write_hex.as_deref().unwrap_or(""));
        let _ = std::fs::remove_file(&p);
        return std::fs::write(&p, bytes).map_err(|e| format!("buildnode: write_file {p}: {e}"));
    }
    let fresh;
    let cfg: &lalrpop::Configuration = match cache {
        Some(m) => m.entry(settings_key(c)).or_insert_with(|| make_config(c)),
        None => {
            fresh = make_config(c);
            &fresh
        }
    };
    let p = c.path.clone().unwrap_or_default();
    let r = match c.entry.as_str() {
        "process_dir" => cfg.process_dir(&p),
        "process" => cfg.process(),
        "process_file" => cfg.process_file(&p),
        "process_current_dir" => cfg.process_current_dir(),
        "process_root" => lalrpop::process_root(),
        "process_src" => lalrpop::process_src(),
        other => return Err(format!("buildnode: unknown entry {other}")),
    };
    r.map_err(|e| e.to_string())
}

fn main() {
    let job_path = std::env::args().nth(1).expect("usage: buildnode <job.json>");
    let job: Job = serde_json::from_slice(&std::fs::read(&job_path).expect("read job")).expect("parse job");
    let mut out = std::fs::OpenOptions::new()
        .create(true)
        .append(true)
        .open(&job.result)
        .expect("open result");
    for _ in 0..job.leak {
        std::mem::forget(vec![0u8; 64]);
    }
    if job.canary {
        let set: HashSet<&str> = ["alpha", "beta", "gamma", "delta", "epsilon", "zeta", "eta", "theta"]
            .into_iter()
            .collect();
        let order: Vec<&str> = set.iter().copied().collect();
        writeln!(out, "{{\"canary\":{}}}", json_str(&order.join(","))).unwrap();
    }
    panic::set_hook(Box::new(|info| {
        let msg = if let Some(s) = info.payload().downcast_ref::<&str>() {
            s.to_string()
        } else if let Some(s) = info.payload().downcast_ref::<String>() {
            s.clone()
        } else {
            "<non-string panic>".to_string()
        };
        let loc = info.location().map(|l| format!("{}:{}", l.file(), l.line())).unwrap_or_default();
        *LAST_PANIC.lock().unwrap() = format!("{msg} @ {loc}");
    }));
    let mut cache = if job.reuse_config { Some(std::collections::HashMap::new()) } else { None };
    for (i, c) in job.calls.iter().enumerate() {
        let r = panic::catch_unwind(AssertUnwindSafe(|| run_call(c, &mut cache)));
        let line = match r {
            Ok(Ok(())) => format!("{{\"i\":{i},\"status\":\"ok\",\"msg\":\"\"}}"),
            Ok(Err(e)) => format!("{{\"i\":{i},\"status\":\"err\",\"msg\":{}}}", json_str(&e)),
            Err(_) => {
                let m = LAST_PANIC.lock().unwrap().clone();
                format!("{{\"i\":{i},\"status\":\"panic\",\"msg\":{}}}", json_str(&m))
            }
        };
        writeln!(out, "{line}").unwrap();
    }
    writeln!(out, "{{\"done\":true}}").unwrap();
}
