//! C23 -- each grammar file maps to exactly one output at the documented path.
//! Seeded directory worlds x entry points, against the independent path model
//! (DESIGN section 4, C23).

use crate::engine::{Engine, Reporter};
use crate::node::{CallSpec, NodeKind, NodeSpec};
use crate::ops::Op;
use crate::pool::Pool;
use crate::scenario::{run_scenario, Outcome, Scenario};
use serde_json::json;
use simcore::{Content, Evidence, Rng};
use std::collections::{BTreeMap, BTreeSet};
use std::time::Instant;

struct Gen<'a> {
    rng: Rng,
    pool: &'a Pool,
    ops: Vec<Op>,
    stem_no: u32,
    /// directories (relative to proj/) that exist and contain no links
    dirs: Vec<String>,
    /// grammar files created (relative to proj/), for process_file / CLI
    grammars: Vec<String>,
    used_special: BTreeSet<&'static str>,
    allow_errors: bool,
}

const DIR_NAMES: &[&str] = &["a", "b", "sub", "src", "my dir", "x.lalrpop", "ünï", "deep", "lalrpopd", "src2"];

impl<'a> Gen<'a> {
    fn text(&mut self) -> Vec<u8> {
        if self.allow_errors && self.rng.chance(1, 14) {
            return self.rng.pick(&self.pool.errors()).bytes.clone();
        }
        let t = self.rng.pick(&self.pool.tiny()).bytes.clone();
        // make texts distinct so that an output in the wrong place is noticed
        self.stem_no += 1;
        let mut t = t;
        t.extend_from_slice(format!("// file {}\n", self.stem_no).as_bytes());
        t
    }
    fn file_name(&mut self) -> (String, bool) {
        // (name, is a grammar by the documented rule)
        let r = self.rng.below(100);
        self.stem_no += 1;
        let n = self.stem_no;
        let special: Option<(&'static str, bool)> = match r {
            0..=3 => Some(("a.b.lalrpop", true)),
            4..=6 => Some((".lalrpop", false)),
            7 => Some(("..lalrpop", true)),
            8..=10 => Some(("up.LALRPOP", false)),
            11..=13 => Some(("z.lalrpop.bak", false)),
            14..=15 => Some(("lalrpop", false)),
            16..=18 => Some(("sp ace.lalrpop", true)),
            19..=20 => Some(("nb\u{a0}sp.lalrpop", true)),
            21 => Some(("tab\there.lalrpop", true)),
            22..=24 => Some(("notes.txt", false)),
            25..=26 => Some(("grämmar.lalrpop", true)),
            27 => Some(("-dash.lalrpop", true)),
            28 => Some(("x.lalrpopx", false)),
            29 => Some(("xlalrpop", false)),
            30 => Some(("twice.lalrpop.lalrpop", true)),
            31 => Some((".hidden.lalrpop", true)),
            32 => Some(("per%cent#.lalrpop", true)),
            33 => Some(("em\u{2003}space.lalrpop", true)),
            34 => Some(("wide\u{3000}space.lalrpop", true)),
            35 => Some(("semi;colon&amp.lalrpop", true)),
            _ => None,
        };
        if let Some((s, g)) = special {
            if self.used_special.insert(s) {
                return (s.to_string(), g);
            }
        }
        (format!("g{n}.lalrpop"), true)
    }
    fn add_dir(&mut self, parent: &str, depth: usize) {
        let nfiles = self.rng.range(0, 3);
        for _ in 0..nfiles {
            let (name, is_g) = self.file_name();
            let p = join(parent, &name);
            let t = self.text();
            self.ops.push(Op::Write { path: format!("proj/{p}"), content: Content::from_bytes(&t) });
            if is_g {
                self.grammars.push(p);
            }
        }
        if depth < 4 {
            let nsub = if depth == 0 { self.rng.range(1, 3) } else { self.rng.range(0, 2) };
            let mut used: BTreeSet<&str> = BTreeSet::new();
            for _ in 0..nsub {
                let d = *self.rng.pick(DIR_NAMES);
                if !used.insert(d) {
                    continue;
                }
                let p = join(parent, d);
                self.ops.push(Op::Mkdir { path: format!("proj/{p}") });
                self.dirs.push(p.clone());
                self.add_dir(&p, depth + 1);
            }
        }
    }
}

fn join(a: &str, b: &str) -> String {
    if a.is_empty() {
        b.to_string()
    } else {
        format!("{a}/{b}")
    }
}

pub fn world(pool: &Pool, seed: u64, n: u64) -> Scenario {
    let mut g = Gen { rng: Rng::derive(seed, 500_000 + n), pool, ops: vec![], stem_no: 0, dirs: vec![], grammars: vec![], used_special: BTreeSet::new(), allow_errors: false };
    g.allow_errors = g.rng.chance(1, 3);
    g.ops.push(Op::Mkdir { path: "proj".into() });
    // a tree outside the project, reachable only through links
    let mut ext_dirs = Vec::new();
    for d in ["ext/d1", "ext/d2/src"] {
        if g.rng.chance(1, 2) {
            g.stem_no += 1;
            let t = g.text();
            g.ops.push(Op::Write { path: format!("{d}/e{}.lalrpop", g.stem_no), content: Content::from_bytes(&t) });
            ext_dirs.push(d.to_string());
        }
    }
    g.stem_no += 1;
    let ext_file = format!("ext/shared{}.lalrpop", g.stem_no);
    let t = g.text();
    g.ops.push(Op::Write { path: ext_file.clone(), content: Content::from_bytes(&t) });
    // always have a src directory half of the time at the top
    if g.rng.chance(2, 3) {
        g.ops.push(Op::Mkdir { path: "proj/src".into() });
        g.dirs.push("src".into());
        g.add_dir("src", 1);
    }
    g.add_dir("", 0);
    // now and then a chain deeper than anything else in the tree
    if g.rng.chance(1, 6) {
        let base = if g.dirs.iter().any(|d| d == "src") && g.rng.chance(1, 2) { "src" } else { "" };
        let chain = join(base, "l1/l2/l3/l4/l5/l6/l7/l8/l9");
        g.stem_no += 1;
        let t = g.text();
        let f = join(&chain, &format!("deep{}.lalrpop", g.stem_no));
        g.ops.push(Op::Write { path: format!("proj/{f}"), content: Content::from_bytes(&t) });
        g.grammars.push(f);
    }
    // links (after the plain tree, so that `dirs` holds link-free directories)
    let nlinks = g.rng.range(0, 4);
    let plain_dirs = g.dirs.clone();
    let mut peer_made = false;
    for li in 0..nlinks {
        let host = if plain_dirs.is_empty() || g.rng.chance(1, 4) { String::new() } else { g.rng.pick(&plain_dirs).clone() };
        match g.rng.below(7) {
            0 => {
                // link to a grammar file, grammar-like name; the target may carry any name at all
                let p = join(&host, &format!("lnk{li}.lalrpop"));
                let target = if g.rng.chance(1, 2) {
                    format!("{{ROOT}}/{ext_file}")
                } else {
                    g.stem_no += 1;
                    let t = g.text();
                    let other = format!("ext/plain{}.txt", g.stem_no);
                    g.ops.push(Op::Write { path: other.clone(), content: Content::from_bytes(&t) });
                    format!("{{ROOT}}/{other}")
                };
                g.ops.push(Op::Symlink { path: format!("proj/{p}"), target });
                g.grammars.push(p);
            }
            1 => {
                // link to a grammar under a name that does not match
                g.ops.push(Op::Symlink { path: format!("proj/{}", join(&host, &format!("lnk{li}.txt"))), target: format!("{{ROOT}}/{ext_file}") });
                // and a link with a RELATIVE target (`../..` up to the world root) under a grammar name
                let ups = "../".repeat(host.split('/').filter(|c| !c.is_empty()).count() + 1);
                let p = join(&host, &format!("rel{li}.lalrpop"));
                g.ops.push(Op::Symlink { path: format!("proj/{p}"), target: format!("{ups}{ext_file}") });
                g.grammars.push(p);
                // and a link to a grammar that is itself inside the project (two documented outputs)
                if let Some(orig) = g.grammars.iter().find(|x| !x.contains("lnk") && !x.contains("rel") && !x.contains(' ')).cloned() {
                    let p2 = join(&host, &format!("dup{li}.lalrpop"));
                    g.ops.push(Op::Symlink { path: format!("proj/{p2}"), target: format!("{{ROOT}}/proj/{orig}") });
                    g.grammars.push(p2);
                }
            }
            2 | 3 => {
                if let Some(d) = ext_dirs.get(g.rng.below(ext_dirs.len().max(1) as u64) as usize) {
                    g.ops.push(Op::Symlink { path: format!("proj/{}", join(&host, &format!("lnkdir{li}"))), target: format!("{{ROOT}}/{d}") });
                }
            }
            4 => g.ops.push(Op::Symlink { path: format!("proj/{}", join(&host, &format!("dangling{li}.lalrpop"))), target: "/nonexistent/verif/target.lalrpop".into() }),
            5 => g.ops.push(Op::Symlink { path: format!("proj/{}", join(&host, &format!("dangling{li}"))), target: "no/such/dir".into() }),
            _ => {
                // link to a dedicated link-free directory inside the project (no cycle possible)
                if !peer_made && !host.is_empty() && !host.starts_with("peerdir") {
                    peer_made = true;
                    g.stem_no += 1;
                    let t = g.text();
                    g.ops.push(Op::Write { path: format!("proj/peerdir/inner/p{}.lalrpop", g.stem_no), content: Content::from_bytes(&t) });
                    g.grammars.push(format!("peerdir/inner/p{}.lalrpop", g.stem_no));
                    g.ops.push(Op::Symlink { path: format!("proj/{}", join(&host, &format!("peer{li}"))), target: "{ROOT}/proj/peerdir".into() });
                }
            }
        }
    }
    // creation order is shuffled (readdir order on tmpfs follows creation order)
    {
        // keep parents before children: shuffle only files/links, after all mkdirs
        let (mut dirs, mut rest): (Vec<Op>, Vec<Op>) = g.ops.drain(..).partition(|o| matches!(o, Op::Mkdir { .. }));
        g.rng.shuffle(&mut rest);
        dirs.append(&mut rest);
        g.ops = dirs;
    }

    // ---- configuration
    let rerun = g.rng.chance(1, 2);
    let report = g.rng.chance(1, 10);
    let base = CallSpec { rerun, report, whitespace: true, ..Default::default() };
    let out_env = ("OUT_DIR".to_string(), "{ROOT}/proj/target/out".to_string());
    let mut env: Vec<(String, String)> = vec![];
    let has_src = g.dirs.iter().any(|d| d == "src");
    let pick_dir = |g: &mut Gen| -> String {
        if g.dirs.is_empty() || g.rng.chance(1, 3) {
            ".".to_string()
        } else {
            let dirs = g.dirs.clone();
            g.rng.pick(&dirs).clone()
        }
    };
    let kind = match g.rng.below(13) {
        0 | 1 => {
            let d = pick_dir(&mut g);
            // existing sub-directories of the walked directory (they hold grammars of their own)
            let below: Vec<String> = g.dirs.iter().filter(|x| d == "." || x.starts_with(&format!("{d}/"))).cloned().collect();
            let od = match g.rng.below(7) {
                0 => "out".to_string(),
                1 => "{ROOT}/proj/out abs".to_string(),
                2 => format!("{d}/gen"),
                3 => "../outside".to_string(),
                4 | 5 if !below.is_empty() => {
                    // the output directory lies inside the input directory and is part of the walk
                    let b = g.rng.pick(&below).clone();
                    match g.rng.below(3) {
                        0 => b,
                        1 => format!("{b}/"),
                        _ => format!("{{ROOT}}/proj/{b}"),
                    }
                }
                _ => d.clone(), // output directory = input directory
            };
            NodeKind::Api { calls: vec![CallSpec { entry: "process_dir".into(), path: Some(d), out_dir: Some(od), ..base.clone() }] }
        }
        2 => {
            env.push(out_env.clone());
            let d = pick_dir(&mut g);
            NodeKind::Api { calls: vec![CallSpec { entry: "process_dir".into(), path: Some(d), ..base.clone() }] }
        }
        3 | 4 => {
            // process() with set_in_dir in several spellings
            let d = if has_src { "src".to_string() } else { pick_dir(&mut g) };
            let spelled = match g.rng.below(5) {
                0 => d.clone(),
                1 => format!("./{d}"),
                2 => format!("{d}/"),
                3 => format!("{{ROOT}}/proj/{d}"),
                _ => {
                    if g.dirs.iter().any(|x| x == "a") {
                        format!("a/../{d}")
                    } else {
                        d.clone()
                    }
                }
            };
            let use_env = g.rng.chance(1, 2);
            if use_env {
                env.push(out_env.clone());
            }
            let below: Vec<String> = g.dirs.iter().filter(|x| x.starts_with(&format!("{d}/"))).cloned().collect();
            let od = if !below.is_empty() && g.rng.chance(1, 3) { g.rng.pick(&below).clone() } else { "gen out".to_string() };
            NodeKind::Api { calls: vec![CallSpec { entry: "process".into(), in_dir: Some(spelled), out_dir: if use_env { None } else { Some(od) }, ..base.clone() }] }
        }
        5 => {
            env.push(out_env.clone());
            NodeKind::Api { calls: vec![CallSpec { entry: "process".into(), cargo_conventions: true, ..base.clone() }] }
        }
        6 => NodeKind::Api { calls: vec![CallSpec { entry: "process".into(), in_source_tree: true, ..base.clone() }] },
        7 => {
            env.push(out_env.clone());
            let e = *g.rng.pick(&["process_current_dir", "process_root", "process_src"]);
            NodeKind::Api { calls: vec![CallSpec { entry: e.into(), ..base.clone() }] }
        }
        8 | 9 => {
            // process_file on a few files, with or without out_dir
            let od = if g.rng.chance(1, 2) { Some("single out".to_string()) } else { None };
            let mut files = g.grammars.clone();
            g.rng.shuffle(&mut files);
            files.truncate(3);
            if files.is_empty() {
                files.push("nothing.lalrpop".into());
            }
            NodeKind::Api { calls: files.into_iter().map(|f| CallSpec { entry: "process_file".into(), path: Some(if g.rng.chance(1, 5) { format!("./{f}") } else { f }), out_dir: od.clone(), ..base.clone() }).collect() }
        }
        10 => {
            // in_dir conflict: must be rejected before anything is touched
            env.push(out_env.clone());
            let d = pick_dir(&mut g);
            let other = if d == "." { "src".to_string() } else { ".".to_string() };
            let e = *g.rng.pick(&["process_dir", "process_file", "process_current_dir"]);
            let p = if e == "process_file" { g.grammars.first().cloned().unwrap_or_else(|| "x.lalrpop".into()) } else { d };
            NodeKind::Api { calls: vec![CallSpec { entry: e.into(), path: Some(p), in_dir: Some(other), ..base.clone() }] }
        }
        _ => {
            let mut files = g.grammars.clone();
            g.rng.shuffle(&mut files);
            files.truncate(4);
            if files.is_empty() {
                files.push("nothing.lalrpop".into());
            }
            let mut args: Vec<String> = Vec::new();
            if g.rng.chance(2, 3) {
                args.push("-o".into());
                args.push(if g.rng.chance(1, 3) { "cli out/".into() } else { "cli out".into() });
            }
            if report {
                args.push("--report".into());
            }
            args.extend(files);
            NodeKind::Cli { args }
        }
    };
    let node = NodeSpec { kind, cwd: "proj".into(), env, hashseed: 0, faults: vec![], leak: 0, canary: false, clock: None, pid: None, reuse_config: false };
    g.ops.push(Op::Build { node: node.clone(), tag: "check".into() });

    // ---- second round: the tree changes, outputs of the first build lie around
    if g.rng.chance(1, 2) {
        for _ in 0..g.rng.range(1, 3) {
            match g.rng.below(4) {
                0 => {
                    let d = pick_dir(&mut g);
                    let d = if d == "." { String::new() } else { d };
                    let (name, _) = g.file_name();
                    let t = g.text();
                    g.ops.push(Op::Write { path: format!("proj/{}", join(&d, &name)), content: Content::from_bytes(&t) });
                }
                1 => {
                    if let Some(f) = g.grammars.first().cloned() {
                        g.ops.push(Op::Remove { path: format!("proj/{f}") });
                    }
                }
                2 => {
                    if let Some(f) = g.grammars.last().cloned() {
                        g.stem_no += 1;
                        let to = match f.rfind('/') {
                            Some(i) => format!("{}/renamed{}.lalrpop", &f[..i], g.stem_no),
                            None => format!("renamed{}.lalrpop", g.stem_no),
                        };
                        g.ops.push(Op::Rename { from: format!("proj/{f}"), to: format!("proj/{to}") });
                    }
                }
                _ => {
                    if let Some(f) = g.grammars.get(g.rng.below(g.grammars.len().max(1) as u64) as usize).cloned() {
                        let t = g.text();
                        g.ops.push(Op::Write { path: format!("proj/{f}"), content: Content::from_bytes(&t) });
                    }
                }
            }
        }
        g.ops.push(Op::Build { node, tag: "check".into() });
    }
    Scenario { property: "C23".into(), seed, label: format!("world-{n}"), ops: g.ops }
}

pub fn run(engine: &Engine, tier: &str, seed: u64) -> i32 {
    let t0 = Instant::now();
    let thorough = tier == "thorough";
    let pool = Pool::load();
    let n = if thorough { 40_000u64 } else { 3_000 };
    let ids: Vec<u64> = (0..n).collect();
    let outs: Vec<(Scenario, Outcome)> = engine.par_map(&ids, |ctx, i| {
        let sc = world(&pool, seed, *i);
        let out = run_scenario(ctx, &sc);
        (sc, out)
    });
    let mut rep = Reporter::new("C23");
    let mut probes = crate::check::Probes::default();
    let mut shapes: BTreeSet<String> = BTreeSet::new();
    let mut entries: BTreeMap<String, u64> = BTreeMap::new();
    let mut builds = 0u64;
    for (sc, out) in &outs {
        probes.add(&out.probes);
        builds += out.builds;
        for o in &sc.ops {
            if let Op::Build { node, .. } = o {
                let e = match &node.kind {
                    NodeKind::Api { calls } => calls.first().map(|c| format!("{}{}{}{}", c.entry, if c.out_dir.is_some() { "+out_dir" } else { "" }, if c.in_dir.is_some() { "+in_dir" } else { "" }, if c.cargo_conventions { "+cargo" } else if c.in_source_tree { "+in_source" } else { "" })).unwrap_or_default(),
                    NodeKind::Cli { args } => format!("cli{}", if args.iter().any(|a| a == "-o") { "+o" } else { "" }),
                };
                *entries.entry(e.clone()).or_default() += 1;
                let p = &out.probes;
                // shape of the world as seen by the model: which path rules were exercised, per entry point
                shapes.insert(format!(
                    "{e}|dangling={}|links={}|src_stripped={}|src_kept={}|dotted={}|ws={}|reject={}|stop={}",
                    p.dangling_skipped.min(1), p.links_followed.min(2), p.leading_src_stripped.min(1), p.inner_src_kept.min(1), p.dotted_stem.min(1), p.whitespace_rejected.min(1), p.rejected_calls.min(1), p.stopped_at_first_failure.min(1)
                ));
            }
        }
        if !out.violations.is_empty() {
            rep.add(sc, &out.violations);
        }
    }
    let (unlisted, known) = rep.finish(engine);
    let wall = t0.elapsed().as_secs_f64();
    let samples: Vec<serde_json::Value> = outs.iter().take(2).map(|(sc, _)| json!(sc)).collect();
    let mut extra = BTreeMap::new();
    extra.insert("worlds".to_string(), json!(outs.len()));
    extra.insert("builds_checked".to_string(), json!(builds));
    extra.insert("entry_points".to_string(), json!(entries));
    extra.insert("reach_probes".to_string(), probes.to_json());
    extra.insert("runs_per_hour".to_string(), json!((outs.len() as f64 / wall * 3600.0) as u64));
    extra.insert("simulated_time".to_string(), json!("none"));
    extra.insert("fault_kinds_fired".to_string(), json!({"dangling_symlink": probes.dangling_skipped}));
    extra.insert("real_components".to_string(), json!(["lalrpop library and CLI (working tree)", "walkdir", "Rust std", "kernel tmpfs"]));
    extra.insert("stubbed_components".to_string(), json!(["libc calls are interposed only to record which paths are mutated", "getrandom (fixed hash seed 0)"]));
    extra.insert("known_findings_reported".to_string(), json!(known));
    if thorough {
        let p = &probes;
        if p.dangling_skipped == 0 || p.links_followed == 0 || p.leading_src_stripped == 0 || p.inner_src_kept == 0 || p.dotted_stem == 0 || p.whitespace_rejected == 0 || p.rejected_calls == 0 || p.directives_checked == 0 {
            simcore::harness_error("C23: a reach probe is zero");
        }
    }
    Evidence {
        property_id: "C23".into(),
        tier: tier.into(),
        seed,
        level: "exploration".into(),
        evaluations: outs.len() as u64,
        distinct_nontrivial: shapes.len() as u64,
        rule: "seeded directory worlds (depth<=4, `src` at the top/middle/twice, adversarial names: dotted stems, `.lalrpop`, `..lalrpop`, upper-case extension, `.bak`, ASCII and Unicode white space, directories named like grammars, non-ASCII names; links to files, to directories inside and outside the root, dangling links; creation order shuffled) x 13 configuration families (process_dir/process/process_file/current_dir/root/src/cargo conventions/in-source/in_dir conflict/CLI, in_dir and out_dir spellings, OUT_DIR vs out_dir, output directory outside / inside / equal to the walked directory, rerun directives on/off, reports now and then), often with a second build after add/remove/rename/edit. Oracle: independent discovery + path model; the set of paths the child mutated (shim trace) must lie inside the expected outputs, each output must equal a forced build of its text, white-space names rejected, directives = processed files. distinct_nontrivial = distinct (entry point, path rules exercised) combinations".into(),
        samples,
        exhaustive: false,
        assumptions: vec!["symlink cycles, non-UTF-8 file names and output-path collisions are not generated (the property is silent on them)".into(), "content oracle is lalrpop itself".into()],
        wall_s: wall,
        violations: unlisted,
        extra,
    }
    .write();
    println!("C23 {tier}: {} worlds, {} builds checked, {} shapes, {} unlisted violations, {} known findings, {:.1}s", outs.len(), builds, shapes.len(), unlisted, known, wall);
    if unlisted > 0 {
        simcore::EXIT_VIOLATION
    } else {
        simcore::EXIT_OK
    }
}
