//! C22 -- a crash during generation never leaves output that a later build
//! accepts.  Crash/write-fault *enumeration* over base scenarios plus sampled
//! fault sequences (DESIGN section 4, C22).

use crate::check::Ctx;
use crate::engine::{Engine, Reporter};
use crate::node::{run_node, CallSpec, NodeKind, NodeSpec, TraceLine};
use crate::ops::{HeaderEdit, Op};
use crate::pool::{apply_edit, Edit, Pool};
use crate::scenario::{run_scenario, Scenario};
use crate::world::{restore, snapshot, Snapshot};
use serde_json::json;
use simcore::{Content, Evidence, Rng};
use std::collections::{BTreeMap, BTreeSet};
use std::time::Instant;

#[derive(Clone)]
pub struct Base {
    pub label: String,
    pub prep: Vec<Op>,
    pub fault: NodeSpec,
    pub finale: NodeSpec,
}

fn api(calls: Vec<CallSpec>, cwd: &str, env: Vec<(String, String)>) -> NodeSpec {
    NodeSpec { kind: NodeKind::Api { calls }, cwd: cwd.into(), env, hashseed: 0, faults: vec![], leak: 0, canary: false, clock: None, pid: None, reuse_config: false }
}

fn text_op(path: &str, bytes: &[u8]) -> Op {
    Op::Write { path: path.into(), content: Content::from_bytes(bytes) }
}

/// Build one base scenario from PRNG choices.
pub fn make_base(pool: &Pool, rng: &mut Rng, idx: usize, small_only: bool) -> Base {
    let layout = idx % 4;
    let texts = if small_only { pool.tiny() } else { pool.valid_small() };
    // two of every eight bases always exercise the report writer, whatever the seed
    let report = rng.chance(1, 4) || idx % 8 == 1 || idx % 8 == 3;
    let comments = rng.chance(1, 6);
    let no_ws = rng.chance(1, 6);
    let mk = |entry: &str, path: Option<&str>, force: bool| CallSpec {
        entry: entry.into(),
        path: path.map(|s| s.to_string()),
        force,
        report,
        comments,
        whitespace: !no_ws,
        ..Default::default()
    };
    // grammar files of this layout
    let files: Vec<&str> = match layout {
        0 => vec!["g.lalrpop"],
        1 => vec!["src/a.lalrpop", "src/sub/b.lalrpop"],
        2 => vec!["x.lalrpop", "y.lalrpop"],
        _ => vec!["src/p.lalrpop"],
    };
    let (node_of, env): (Box<dyn Fn(bool) -> NodeSpec>, Vec<(String, String)>) = match layout {
        0 => (Box::new(move |force| api(vec![mk("process_file", Some("g.lalrpop"), force)], "", vec![])), vec![]),
        1 => (
            Box::new(move |force| {
                let mut c = mk("process_dir", Some("src"), force);
                c.out_dir = Some("out".into());
                api(vec![c], "", vec![])
            }),
            vec![],
        ),
        2 => (
            Box::new(move |force| {
                let mut args: Vec<String> = vec!["-o".into(), "gen".into()];
                if force {
                    args.push("--force".into());
                }
                if report {
                    args.push("--report".into());
                }
                if comments {
                    args.push("--comments".into());
                }
                if no_ws {
                    args.push("--no-whitespace".into());
                }
                args.push("x.lalrpop".into());
                args.push("y.lalrpop".into());
                NodeSpec { kind: NodeKind::Cli { args }, cwd: String::new(), env: vec![], hashseed: 0, faults: vec![], leak: 0, canary: false, clock: None, pid: None, reuse_config: false }
            }),
            vec![],
        ),
        _ => (
            Box::new(move |force| {
                let mut c = mk("process", None, force);
                c.cargo_conventions = true;
                api(vec![c], "", vec![("OUT_DIR".into(), "{ROOT}/target/out".into())])
            }),
            vec![("OUT_DIR".to_string(), "{ROOT}/target/out".to_string())],
        ),
    };
    let _ = env;
    let mut prep = Vec::new();
    let mut label = format!("layout{layout}");
    let mut any_needs = false;
    let nfiles = files.len();
    let mut finals: Vec<(String, Vec<u8>)> = Vec::new();
    // choose pre-states
    let mut pres: Vec<u64> = (0..nfiles).map(|_| rng.below(4)).collect();
    let force_fault = rng.chance(1, 4);
    if !force_fault && pres.iter().all(|p| *p == 1) {
        pres[0] = 2;
    }
    // the two report bases that exist whatever the seed: one starts without any output or report,
    // the other from the output and report of a materially different grammar
    if idx % 8 == 1 {
        pres[0] = 0;
    }
    if idx % 8 == 3 {
        pres[0] = 2;
    }
    // phase 1: older texts for stale-hash outputs, current texts otherwise
    for (fi, f) in files.iter().enumerate() {
        let t = rng.pick(&texts).bytes.clone();
        let current = t.clone();
        let pre = pres[fi];
        match pre {
            2 => {
                // stale hash: build an older text first -- a comment edit, or another grammar altogether
                // (then the old output and the old report differ from the new ones in the body too)
                let old = if idx % 8 == 3 || rng.chance(1, 2) {
                    let mut o = rng.pick(&texts).bytes.clone();
                    let mut tries = 0;
                    while o == t && tries < 8 {
                        o = rng.pick(&texts).bytes.clone();
                        tries += 1;
                    }
                    if o == t {
                        apply_edit(&t, Edit::AppendComment, 7 + fi as u64)
                    } else {
                        o
                    }
                } else {
                    apply_edit(&t, Edit::AppendComment, 7 + fi as u64)
                };
                prep.push(text_op(f, &old));
            }
            _ => prep.push(text_op(f, &current)),
        }
        finals.push((f.to_string(), current));
        label.push_str(match pre {
            0 => "-absent",
            1 => "-current",
            2 => "-stalehash",
            _ => "-staleversion",
        });
        if pre != 1 {
            any_needs = true;
        }
    }
    let _ = any_needs;
    if pres.iter().any(|p| *p != 0) {
        prep.push(Op::Build { node: node_of(false), tag: "prep".into() });
    }
    // phase 2: bring each file to its pre-state
    for (fi, (f, current)) in finals.iter().enumerate() {
        let out_path = match layout {
            0 => "g.rs".to_string(),
            1 => {
                if fi == 0 {
                    "out/a.rs".to_string()
                } else {
                    "out/sub/b.rs".to_string()
                }
            }
            2 => {
                if fi == 0 {
                    "gen/x.rs".to_string()
                } else {
                    "gen/y.rs".to_string()
                }
            }
            _ => "target/out/p.rs".to_string(),
        };
        match pres[fi] {
            0 => prep.push(Op::Remove { path: out_path }),
            1 => {}
            2 => prep.push(text_op(f, current)),
            _ => prep.push(Op::EditHeader { path: out_path, edit: HeaderEdit::ChangeVersion { to: "0.19.0".into() } }),
        }
    }
    if report {
        label.push_str("-report");
    }
    if force_fault {
        label.push_str("-forced");
    }
    Base { label, prep, fault: node_of(force_fault), finale: node_of(false) }
}

#[derive(Clone, Debug)]
pub struct Point {
    pub base: usize,
    pub fault: String,
    /// (class, op:role, offset class) for the reach measure
    pub shape: (String, String, String),
}

fn offset_class(k: u64, n: u64) -> &'static str {
    if k == 0 {
        "0"
    } else if k == 1 {
        "1"
    } else if k + 1 == n {
        "n-1"
    } else if k >= n {
        "n"
    } else {
        "mid"
    }
}

fn role(path: &str) -> &'static str {
    if path.ends_with(".rs") {
        "final-rs"
    } else if path.ends_with(".report") {
        "report"
    } else if path.contains("tmp") {
        "temporary"
    } else {
        "other"
    }
}

/// Fault points of one dry run.
pub fn points_of(base: usize, trace: &[TraceLine], thorough: bool, every_byte: bool, rng: &mut Rng) -> (Vec<Point>, bool) {
    let ops: Vec<&TraceLine> = trace.iter().filter(|t| t.cls == 'M' && t.op != "rename-from").collect();
    let mut writes_per_path: BTreeMap<String, usize> = BTreeMap::new();
    for t in &ops {
        if t.op.starts_with("write") {
            *writes_per_path.entry(t.path.clone()).or_default() += 1;
        }
    }
    let mut pts = Vec::new();
    let mut complete = true;
    let mut seen_writes: BTreeMap<String, usize> = BTreeMap::new();
    for t in &ops {
        let i = t.seq;
        let r = role(&t.path);
        let opname = if t.op.starts_with("write") { "write" } else { t.op.as_str() };
        if opname == "write" {
            let n = t.arg.max(0) as u64;
            let total = writes_per_path[&t.path];
            let nth = {
                let e = seen_writes.entry(t.path.clone()).or_default();
                *e += 1;
                *e - 1
            };
            // many tiny writes to one file (the report): sample the writes in the quick tier
            let sampled_out = !thorough && total > 24 && !(nth < 6 || nth + 6 >= total || nth % 89 == 0);
            if sampled_out {
                complete = false;
                continue;
            }
            pts.push(Point { base, fault: format!("{i}:kill"), shape: ("kill".into(), format!("{opname}:{r}"), "-".into()) });
            let mut ks: BTreeSet<u64> = BTreeSet::new();
            if n <= 128 || (thorough && every_byte && n <= 70_000) {
                ks.extend(1..n);
            } else if thorough {
                complete = false;
                let mut k = 1;
                while k < n {
                    ks.insert(k);
                    k += 61;
                }
                ks.extend([n - 1, n / 2, 2, 3]);
            } else {
                complete = false;
                ks.extend([1, n / 2, n - 1]);
                for _ in 0..24 {
                    ks.insert(rng.range(1, n - 1));
                }
            }
            for k in ks {
                let oc = offset_class(k, n);
                pts.push(Point { base, fault: format!("{i}:killw:{k}"), shape: ("torn-write".into(), format!("write:{r}"), oc.into()) });
                // error-returning variants at the class representatives and a sample of the rest
                if k <= 2 || k + 2 >= n || k == n / 2 || (thorough && k % 7 == 0) || (!thorough && k % 3 == 0) {
                    pts.push(Point { base, fault: format!("{i}:enospc:{k}"), shape: ("enospc".into(), format!("write:{r}"), oc.into()) });
                    pts.push(Point { base, fault: format!("{i}:eio:{k}"), shape: ("eio".into(), format!("write:{r}"), oc.into()) });
                }
            }
            pts.push(Point { base, fault: format!("{i}:enospc:0"), shape: ("enospc".into(), format!("write:{r}"), "0".into()) });
            pts.push(Point { base, fault: format!("{i}:eio:0"), shape: ("eio".into(), format!("write:{r}"), "0".into()) });
        } else {
            pts.push(Point { base, fault: format!("{i}:kill"), shape: ("kill".into(), format!("{opname}:{r}"), "-".into()) });
            let errnos: &[i64] = match opname {
                "open" | "openat" | "creat" => &[13, 28, 5],
                "unlink" => &[13, 5, 30],
                "mkdir" => &[13, 28],
                "rename" => &[13, 18, 28],
                "close" => &[5],
                _ => &[5],
            };
            for e in errnos {
                pts.push(Point { base, fault: format!("{i}:fail:{e}"), shape: ("fail-call".into(), format!("{opname}:{r}"), format!("errno{e}")) });
            }
        }
    }
    // read-side faults: the build may fail, the next one must still be right
    let reads: Vec<&TraceLine> = trace.iter().filter(|t| t.cls == 'R').collect();
    for t in reads {
        pts.push(Point { base, fault: format!("r{}:kill", t.seq), shape: ("kill-read".into(), format!("{}:{}", t.op, role(&t.path)), "-".into()) });
        pts.push(Point { base, fault: format!("r{}:fail:5", t.seq), shape: ("fail-read".into(), format!("{}:{}", t.op, role(&t.path)), "errno5".into()) });
    }
    (pts, complete)
}

fn scenario_of(b: &Base, faults: &[String], seed: u64) -> Scenario {
    let mut ops = b.prep.clone();
    let mut f = b.fault.clone();
    f.faults = faults.to_vec();
    ops.push(Op::Build { node: f, tag: "fault".into() });
    ops.push(Op::Build { node: b.finale.clone(), tag: "final".into() });
    Scenario { property: "C22".into(), seed, label: b.label.clone(), ops }
}

/// Prepare the pre-state of a base in `ctx.world` and return its snapshot and dry-run trace.
fn prepare(ctx: &Ctx, b: &Base) -> (Snapshot, Vec<TraceLine>, bool) {
    let sc = Scenario { property: "C22".into(), seed: 0, label: String::new(), ops: b.prep.clone() };
    let _ = run_scenario(ctx, &sc);
    let snap = snapshot(&ctx.world.root());
    let dry = run_node(ctx.world, ctx.bins, &b.fault);
    let ok = dry.verdict() == Ok(true);
    (snap, dry.trace, ok)
}

/// A sampled fault *sequence*: up to three faulted builds with edits in between.
fn sequence_scenario(pool: &Pool, rng: &mut Rng, seed: u64, idx: usize) -> Scenario {
    let b = make_base(pool, rng, idx, false);
    let mut ops = b.prep.clone();
    let n = rng.range(1, 3);
    let grammar_paths: Vec<String> = b.prep.iter().filter_map(|o| if let Op::Write { path, .. } = o { Some(path.clone()) } else { None }).collect::<BTreeSet<_>>().into_iter().collect();
    let kinds = ["kill", "killw", "enospc", "eio", "fail"];
    // swarm: a random subset of fault kinds is enabled in this run
    let enabled: Vec<&str> = kinds.iter().copied().filter(|_| rng.chance(2, 3)).collect();
    let enabled = if enabled.is_empty() { vec!["killw"] } else { enabled };
    for round in 0..n {
        if round > 0 || rng.chance(1, 2) {
            if let Some(p) = grammar_paths.get(rng.below(grammar_paths.len().max(1) as u64) as usize) {
                let base_text = rng.pick(&pool.valid_small()).bytes.clone();
                ops.push(text_op(p, &apply_edit(&base_text, Edit::AppendComment, rng.below(50))));
            }
        }
        let mut f = b.fault.clone();
        if let NodeKind::Api { calls } = &mut f.kind {
            for c in calls.iter_mut() {
                c.force = rng.chance(1, 3);
            }
        }
        let nf = rng.range(1, 2);
        for _ in 0..nf {
            let kind = *rng.pick(&enabled);
            let i = if rng.chance(1, 2) { rng.below(12) } else { rng.below(60) };
            let fault = match kind {
                "kill" => format!("{i}:kill"),
                "killw" => format!("{i}:killw:{}", if rng.chance(1, 2) { rng.below(120) } else { rng.below(30_000) }),
                "enospc" => format!("{i}:enospc:{}", if rng.chance(1, 2) { rng.below(120) } else { rng.below(30_000) }),
                "eio" => format!("{i}:eio:{}", rng.below(200)),
                _ => format!("{i}:fail:{}", rng.pick(&[13i64, 28, 5, 18])),
            };
            f.faults.push(fault);
        }
        // transparent faults ride along in some runs
        if rng.chance(1, 4) {
            f.faults.push(format!("{}:short:{}", rng.below(10), rng.range(1, 40)));
        }
        ops.push(Op::Build { node: f, tag: "fault".into() });
    }
    ops.push(Op::Build { node: b.finale.clone(), tag: "final".into() });
    Scenario { property: "C22".into(), seed, label: format!("seq-{}", b.label), ops }
}

pub fn run(engine: &Engine, tier: &str, seed: u64) -> i32 {
    let t0 = Instant::now();
    let thorough = tier == "thorough";
    let pool = Pool::load();
    let nbases = if thorough { 12 } else { 8 };
    let nseq = if thorough { 6000 } else { 400 };

    // ---- bases, their snapshots and fault points
    let bases: Vec<Base> = (0..nbases)
        .map(|i| {
            let mut rng = Rng::derive(seed, 1000 + i as u64);
            // thorough enumerates every byte: keep the texts tiny there; quick mixes
            make_base(&pool, &mut rng, i, thorough || i % 2 == 0)
        })
        .collect();
    let idxs: Vec<usize> = (0..bases.len()).collect();
    let prepared: Vec<(Snapshot, Vec<Point>, bool, bool)> = engine.par_map(&idxs, |ctx, i| {
        let (snap, trace, ok) = prepare(ctx, &bases[*i]);
        let mut rng = Rng::derive(seed, 2000 + *i as u64);
        let (pts, complete) = points_of(*i, &trace, thorough, *i < 4, &mut rng);
        (snap, pts, ok, complete)
    });
    for (i, p) in prepared.iter().enumerate() {
        if !p.2 {
            simcore::harness_error(&format!("C22: fault-free dry run of base {} ({}) does not succeed", i, bases[i].label));
        }
    }
    eprintln!("[c22] prepared at {:.1}s: fault points per base {:?}", t0.elapsed().as_secs_f64(), prepared.iter().map(|p| p.1.len()).collect::<Vec<_>>());
    let mut jobs: Vec<Point> = Vec::new();
    for p in &prepared {
        jobs.extend(p.1.iter().cloned());
    }

    struct JobOut {
        fired: bool,
        violations: Vec<crate::scenario::Violation>,
        shape: (String, String, String),
        base: usize,
        fault: String,
        probes: crate::check::Probes,
    }
    let outs: Vec<JobOut> = engine.par_map(&jobs, |ctx, pt| {
        let b = &bases[pt.base];
        crate::world::remove_tree(&ctx.world.tmpdir());
        restore(&ctx.world.root(), &prepared[pt.base].0);
        // run only the tail (fault build + final build) from the snapshot
        let mut f = b.fault.clone();
        f.faults = vec![pt.fault.clone()];
        let tail = Scenario { property: "C22".into(), seed, label: b.label.clone(), ops: vec![Op::Build { node: f, tag: "fault".into() }, Op::Build { node: b.finale.clone(), tag: "final".into() }] };
        let out = run_tail(ctx, &tail);
        JobOut { fired: out.fired.values().sum::<u64>() > 0, violations: out.violations, shape: pt.shape.clone(), base: pt.base, fault: pt.fault.clone(), probes: out.probes }
    });

    eprintln!("[c22] enumeration phase done at {:.1}s ({} jobs)", t0.elapsed().as_secs_f64(), outs.len());
    let mut rep = Reporter::new("C22");
    let mut fired_kinds: BTreeMap<String, u64> = BTreeMap::new();
    let mut distinct: BTreeSet<(String, String, String, String)> = BTreeSet::new();
    let mut unfired = 0u64;
    let mut probes = crate::check::Probes::default();
    let mut samples = Vec::new();
    for o in &outs {
        probes.add(&o.probes);
        if o.fired {
            *fired_kinds.entry(o.shape.0.clone()).or_default() += 1;
            distinct.insert((o.shape.0.clone(), o.shape.1.clone(), o.shape.2.clone(), bases[o.base].label.clone()));
        } else {
            unfired += 1;
        }
        if !o.violations.is_empty() {
            let sc = scenario_of(&bases[o.base], &[o.fault.clone()], seed);
            rep.add(&sc, &o.violations);
        }
    }
    for (i, b) in bases.iter().enumerate().take(4) {
        let pts = &prepared[i].1;
        samples.push(json!({"base": b.label, "fault_points": pts.len(), "example_faults": pts.iter().step_by((pts.len() / 5).max(1)).take(6).map(|p| p.fault.clone()).collect::<Vec<_>>(), "scenario": scenario_of(b, &[pts.get(pts.len()/2).map(|p| p.fault.clone()).unwrap_or_default()], seed)}));
    }

    // ---- fault sequences
    let seq_ids: Vec<u64> = (0..nseq as u64).collect();
    let seq_out: Vec<(Scenario, crate::scenario::Outcome)> = engine.par_map(&seq_ids, |ctx, n| {
        let mut rng = Rng::derive(seed, 100_000 + *n);
        let sc = sequence_scenario(&pool, &mut rng, seed, *n as usize);
        let out = run_scenario(ctx, &sc);
        (sc, out)
    });
    eprintln!("[c22] sequence phase done at {:.1}s", t0.elapsed().as_secs_f64());
    let mut seq_fired = 0u64;
    for (sc, out) in &seq_out {
        for (k, v) in &out.fired {
            *fired_kinds.entry(format!("seq:{k}")).or_default() += v;
            seq_fired += v;
        }
        unfired += out.unfired;
        probes.add(&out.probes);
        if let Some((c, r)) = &out.last_fault {
            distinct.insert((format!("seq:{c}"), r.clone(), format!("builds={}", out.builds), String::new()));
        }
        if !out.violations.is_empty() {
            rep.add(sc, &out.violations);
        }
    }
    if let Some((sc, _)) = seq_out.first() {
        samples.push(json!({"fault_sequence": sc}));
    }

    let (unlisted, known) = rep.finish(engine);
    let wall = t0.elapsed().as_secs_f64();
    let evals = outs.len() as u64 + seq_out.len() as u64;
    let mut extra = BTreeMap::new();
    extra.insert("fault_kinds_fired".to_string(), json!(fired_kinds));
    extra.insert("faults_planned_but_not_reached".to_string(), json!(unfired));
    extra.insert("base_scenarios".to_string(), json!(bases.iter().map(|b| b.label.clone()).collect::<Vec<_>>()));
    extra.insert("enumerated_fault_points".to_string(), json!(outs.len()));
    extra.insert("bases_enumerated_completely".to_string(), json!(prepared.iter().enumerate().filter(|(_, p)| p.3).map(|(i, _)| bases[i].label.clone()).collect::<Vec<_>>()));
    extra.insert("fault_sequences_sampled".to_string(), json!(seq_out.len()));
    extra.insert("sequence_faults_fired".to_string(), json!(seq_fired));
    extra.insert("reach_probes".to_string(), probes.to_json());
    extra.insert("runs_per_hour".to_string(), json!((evals as f64 / wall * 3600.0) as u64));
    extra.insert("simulated_time".to_string(), json!("none: the system has no clock; progress is counted in file-system operations"));
    extra.insert("real_components".to_string(), json!(["lalrpop library (working tree)", "lalrpop CLI main.rs (working tree)", "Rust std I/O", "walkdir", "kernel tmpfs"]));
    extra.insert("stubbed_components".to_string(), json!(["results of interposed libc calls (simfs.so)", "getrandom (fixed hash seed 0)"]));
    extra.insert("known_findings_reported".to_string(), json!(known));
    extra.insert("oracle_builds".to_string(), json!(*engine.oracle.computed.lock().unwrap()));
    if thorough && (probes.rebuilt_absent == 0 || fired_kinds.get("torn-write").copied().unwrap_or(0) == 0) {
        simcore::harness_error("C22: a reach probe is zero (no torn write fired or nothing was rebuilt)");
    }
    Evidence {
        property_id: "C22".into(),
        tier: tier.into(),
        seed,
        level: "fault_enumeration".into(),
        evaluations: evals,
        distinct_nontrivial: distinct.len() as u64,
        rule: "enumeration: for each base scenario (layout x pre-state of each output x flags) the fault-free dry run lists the mutating libc calls and write sizes; one run per (op boundary kill | byte offset torn write | ENOSPC/EIO at offset | failing open/unlink/mkdir/rename/close | read-side kill/EIO), each followed by a clean non-forced build compared byte-for-byte with a forced build; plus sampled sequences of 1-3 faulted builds with edits in between. distinct_nontrivial = distinct (fault class, op kind:path role, offset class, base scenario) tuples whose fault actually fired".into(),
        samples,
        exhaustive: false,
        assumptions: vec![
            "fault model = process death at a libc call boundary or inside a write after k bytes, and failing/short writes and calls; power loss (un-fsynced data) is outside C22".into(),
            "content oracle is lalrpop itself (forced build in a clean world, hash seed 0): C22 is about which bytes survive, not what a parser looks like".into(),
            "a node is a deterministic function of (world, argv, env, hash seed); checked by the determinism self-test".into(),
        ],
        wall_s: wall,
        violations: unlisted,
        extra,
    }
    .write();
    println!("C22 {tier}: {} enumerated fault points over {} bases, {} sequences, {} distinct shapes, {} unlisted violations, {} known findings, {:.1}s", outs.len(), bases.len(), seq_out.len(), distinct.len(), unlisted, known, wall);
    if unlisted > 0 {
        simcore::EXIT_VIOLATION
    } else {
        simcore::EXIT_OK
    }
}

/// Like run_scenario but without resetting the world (it was restored from a snapshot).
fn run_tail(ctx: &Ctx, sc: &Scenario) -> crate::scenario::Outcome {
    crate::scenario::run_ops(ctx, sc, false)
}

pub fn sequence_for_selftest(pool: &Pool, seed: u64, n: u64) -> Scenario {
    let mut rng = Rng::derive(seed, 100_000 + n);
    sequence_scenario(pool, &mut rng, seed, n as usize)
}
