//! buildsim -- engine A: the build-world simulator (DESIGN section 2).

mod c20;
mod c21;
mod c22;
mod c23;
mod check;
mod engine;
mod model;
mod node;
mod ops;
mod oracle;
mod pool;
mod scenario;
mod selftest;
mod world;

use engine::Engine;

fn usage() -> ! {
    eprintln!("usage: buildsim <c20|c21|c22|c23> <quick|thorough> | replay <file> | selftest-determinism | audit");
    std::process::exit(simcore::EXIT_HARNESS)
}

fn main() {
    let args: Vec<String> = std::env::args().skip(1).collect();
    if args.is_empty() {
        usage();
    }
    // children inherit the personality: replay must not depend on address-space layout
    unsafe {
        libc::personality(0x0040000);
    }
    let seed = simcore::env_seed();
    println!("VERIF_SEED={seed}");
    let engine = Engine::new();
    let code = match args[0].as_str() {
        "c20" => c20::run(&engine, args.get(1).map(|s| s.as_str()).unwrap_or("quick"), seed),
        "c21" => c21::run(&engine, args.get(1).map(|s| s.as_str()).unwrap_or("quick"), seed),
        "c22" => c22::run(&engine, args.get(1).map(|s| s.as_str()).unwrap_or("quick"), seed),
        "c23" => c23::run(&engine, args.get(1).map(|s| s.as_str()).unwrap_or("quick"), seed),
        "selftest-determinism" => selftest::determinism(&engine, seed, args.get(1).and_then(|s| s.parse().ok()).unwrap_or(120)),
        "audit" => selftest::audit(&engine),
        "replay" => engine::replay_file(&engine, args.get(1).map(|s| s.as_str()).unwrap_or_else(|| usage())),
        _ => usage(),
    };
    engine.cleanup();
    std::process::exit(code);
}
