//! Reference model of discovery and output placement, written from the
//! property statements (C23) -- independent of lalrpop's own code.
//!
//! It reads the *real* world directory (the simulator's own ops are trusted)
//! before a build and says: which files will be processed, in which order,
//! and where each output belongs.

use crate::node::CallSpec;
use crate::world::lex_norm;
use std::fs;
use std::path::{Path, PathBuf};

#[derive(Clone, Debug)]
pub struct Planned {
    /// grammar path exactly as the walk spells it (relative to cwd or absolute)
    pub spelled: String,
    /// world-relative, lexically normalised
    pub rel: String,
    /// world-relative output / report path (lexical)
    pub out_rel: String,
    pub report_rel: String,
    /// file name contains white space: must be rejected
    pub ws_name: bool,
    /// stem made only of dots etc. -- mapping degenerates (finding F5)
    pub degenerate_stem: bool,
    pub text: Vec<u8>,
}

#[derive(Clone, Debug)]
pub enum CallPlan {
    /// the call must fail before touching anything
    Reject { why: String },
    /// files in processing order
    Files { files: Vec<Planned>, dangling_skipped: usize, links_followed: usize },
}

fn join(a: &str, b: &str) -> String {
    if a.is_empty() {
        b.to_string()
    } else if b.is_empty() {
        a.to_string()
    } else if a.ends_with('/') {
        format!("{a}{b}")
    } else {
        format!("{a}/{b}")
    }
}

/// components of a path string the way std::path sees them (".", "..", names)
fn comps(p: &str) -> Vec<String> {
    Path::new(p)
        .components()
        .map(|c| match c {
            std::path::Component::RootDir => "/".to_string(),
            other => other.as_os_str().to_string_lossy().into_owned(),
        })
        .collect()
}

fn strip_prefix_comps(p: &[String], pre: &[String]) -> Option<Vec<String>> {
    if p.len() < pre.len() || p[..pre.len()] != *pre {
        return None;
    }
    Some(p[pre.len()..].to_vec())
}

struct Walk<'a> {
    abs_cwd: &'a Path,
    out: Vec<String>,
    dangling: usize,
    links: usize,
    depth_guard: usize,
}

impl<'a> Walk<'a> {
    fn abs(&self, spelled: &str) -> PathBuf {
        if spelled.starts_with('/') {
            PathBuf::from(spelled)
        } else {
            self.abs_cwd.join(spelled)
        }
    }
    /// Pre-order walk, entries sorted by file name (bytes), links followed.
    fn visit(&mut self, spelled: &str, depth: usize) -> Result<(), String> {
        if depth > 24 {
            self.depth_guard += 1;
            return Err("symlink loop or too deep".into());
        }
        let abs = self.abs(spelled);
        let lmd = match fs::symlink_metadata(&abs) {
            Ok(m) => m,
            Err(e) => return Err(format!("{spelled}: {e}")),
        };
        let md = if lmd.file_type().is_symlink() {
            match fs::metadata(&abs) {
                Ok(m) => {
                    self.links += 1;
                    m
                }
                Err(_) => {
                    self.dangling += 1;
                    return Ok(()); // dangling link: skipped
                }
            }
        } else {
            lmd
        };
        if md.is_dir() {
            let mut names: Vec<Vec<u8>> = match fs::read_dir(&abs) {
                Ok(rd) => rd
                    .flatten()
                    .map(|e| {
                        use std::os::unix::ffi::OsStrExt;
                        e.file_name().as_bytes().to_vec()
                    })
                    .collect(),
                Err(e) => return Err(format!("{spelled}: {e}")),
            };
            names.sort();
            for n in names {
                let n = String::from_utf8_lossy(&n).into_owned();
                self.visit(&join(spelled, &n), depth + 1)?;
            }
        } else if md.is_file() {
            // extension test: name = stem + ".lalrpop" with a non-empty stem
            let name = spelled.rsplit('/').next().unwrap_or(spelled);
            if let Some(stem) = name.strip_suffix(".lalrpop") {
                if !stem.is_empty() {
                    self.out.push(spelled.to_string());
                }
            }
        }
        Ok(())
    }
}

pub struct Env<'a> {
    /// absolute world root
    pub root: &'a Path,
    /// cwd relative to the world root
    pub cwd_rel: &'a str,
    pub out_dir_env: Option<String>,
}

fn to_world_rel(env: &Env, spelled: &str) -> Option<String> {
    let root_s = env.root.to_string_lossy();
    crate::node::rel_of(&root_s, env.cwd_rel, spelled)
}

fn stem_rs(name: &str, ext: &str) -> (String, bool) {
    // documented mapping: stem + ".rs"; `stem` = name without ".lalrpop"
    let stem = name.strip_suffix(".lalrpop").unwrap_or(name);
    let degenerate = stem.chars().all(|c| c == '.');
    (format!("{stem}.{ext}"), degenerate)
}

fn plan_file(env: &Env, spelled: &str, in_dir: Option<&str>, out_dir: Option<&str>) -> Result<Planned, String> {
    let name = spelled.rsplit('/').next().unwrap_or(spelled).to_string();
    let parent = match spelled.rfind('/') {
        Some(0) => "/".to_string(),
        Some(i) => spelled[..i].to_string(),
        None => String::new(),
    };
    let dir_spelled = match out_dir {
        None => {
            if parent.is_empty() {
                ".".to_string()
            } else {
                parent.clone()
            }
        }
        Some(od) => {
            let mut rel: Vec<String> = match in_dir {
                Some(id) => strip_prefix_comps(&comps(&parent), &comps(id)).ok_or_else(|| format!("{parent} not under in_dir {id}"))?,
                None => Vec::new(),
            };
            if rel.first().map(|s| s.as_str()) == Some("src") {
                rel.remove(0);
            }
            let mut d = od.to_string();
            for c in rel {
                d = join(&d, &c);
            }
            d
        }
    };
    let (rs_name, degenerate) = stem_rs(&name, "rs");
    let (rep_name, _) = stem_rs(&name, "report");
    let out_sp = join(&dir_spelled, &rs_name);
    let rep_sp = join(&dir_spelled, &rep_name);
    let abs = if spelled.starts_with('/') { PathBuf::from(spelled) } else { env.root.join(env.cwd_rel).join(spelled) };
    let text = fs::read(&abs).unwrap_or_default();
    Ok(Planned {
        spelled: spelled.to_string(),
        rel: to_world_rel(env, spelled).unwrap_or_else(|| format!("<outside>{spelled}")),
        out_rel: to_world_rel(env, &out_sp).unwrap_or_else(|| format!("<outside>{out_sp}")),
        report_rel: to_world_rel(env, &rep_sp).unwrap_or_else(|| format!("<outside>{rep_sp}")),
        ws_name: name.chars().any(char::is_whitespace),
        degenerate_stem: degenerate,
        text,
    })
}

fn plan_dir(env: &Env, c: &CallSpec, dir: &str, in_dir_cfg: Option<&str>, out_dir_cfg: Option<&str>) -> CallPlan {
    // in_dir conflict: set and different from the directory asked for
    if let Some(id) = in_dir_cfg {
        if comps(id) != comps(dir) || (id.ends_with('/') != dir.ends_with('/') && false) {
            return CallPlan::Reject { why: "in_dir conflict".into() };
        }
    }
    let out_dir = match out_dir_cfg.map(|s| s.to_string()).or_else(|| env.out_dir_env.clone()) {
        Some(o) => o,
        None => return CallPlan::Reject { why: "missing OUT_DIR".into() },
    };
    let abs_cwd = env.root.join(env.cwd_rel);
    let mut w = Walk { abs_cwd: &abs_cwd, out: Vec::new(), dangling: 0, links: 0, depth_guard: 0 };
    if let Err(e) = w.visit(dir, 0) {
        return CallPlan::Reject { why: format!("walk: {e}") };
    }
    let mut files = Vec::new();
    for sp in &w.out {
        match plan_file(env, sp, Some(dir), Some(&out_dir)) {
            Ok(p) => files.push(p),
            Err(e) => return CallPlan::Reject { why: e },
        }
    }
    let _ = c;
    CallPlan::Files { files, dangling_skipped: w.dangling, links_followed: w.links }
}

/// What one API call is expected to do, per the documented behaviour.
pub fn plan_call(env: &Env, c: &CallSpec) -> CallPlan {
    // effective configuration after the setters, in buildnode's order
    let mut in_dir: Option<String> = None;
    let mut out_dir: Option<String> = None;
    if c.cargo_conventions {
        in_dir = Some("src".into());
        match &env.out_dir_env {
            Some(o) => out_dir = Some(o.clone()),
            None => return CallPlan::Reject { why: "cargo conventions without OUT_DIR (panics)".into() },
        }
    }
    if c.in_source_tree {
        in_dir = Some(".".into());
        out_dir = Some(".".into());
    }
    if let Some(d) = &c.in_dir {
        in_dir = Some(d.clone());
    }
    if let Some(d) = &c.out_dir {
        out_dir = Some(d.clone());
    }
    let abs_cwd = env.root.join(env.cwd_rel).to_string_lossy().into_owned();
    match c.entry.as_str() {
        "process_dir" => plan_dir(env, c, c.path.as_deref().unwrap_or(""), in_dir.as_deref(), out_dir.as_deref()),
        "process" => {
            let d = in_dir.clone().unwrap_or_else(|| ".".to_string());
            plan_dir(env, c, &d, in_dir.as_deref(), out_dir.as_deref())
        }
        "process_current_dir" => plan_dir(env, c, &abs_cwd, in_dir.as_deref(), out_dir.as_deref()),
        "process_root" => plan_dir(env, c, &abs_cwd, None, None),
        "process_src" => plan_dir(env, c, "./src", Some("./src"), None),
        "write_file" => CallPlan::Files { files: vec![], dangling_skipped: 0, links_followed: 0 },
        "process_file" => {
            if in_dir.is_some() {
                return CallPlan::Reject { why: "in_dir conflict (process_file)".into() };
            }
            let p = c.path.as_deref().unwrap_or("");
            match plan_file(env, p, None, out_dir.as_deref()) {
                Ok(f) => CallPlan::Files { files: vec![f], dangling_skipped: 0, links_followed: 0 },
                Err(e) => CallPlan::Reject { why: e },
            }
        }
        other => CallPlan::Reject { why: format!("unknown entry {other}") },
    }
}

/// CLI: `lalrpop [-o DIR] inputs...` = process_file per input, stops at first error
pub fn plan_cli(env: &Env, inputs: &[String], out_dir: Option<&str>) -> Vec<Planned> {
    inputs.iter().filter_map(|i| plan_file(env, i, None, out_dir).ok()).collect()
}

/// canonical world-relative form of a (possibly non-existing) path: resolve the
/// parent directory on the real file system, keep the last component.
pub fn canon_rel(root: &Path, rel: &str) -> String {
    let p = root.join(rel);
    let (parent, name) = match (p.parent(), p.file_name()) {
        (Some(a), Some(b)) => (a.to_path_buf(), b.to_os_string()),
        _ => return rel.to_string(),
    };
    let croot = fs::canonicalize(root).unwrap_or_else(|_| root.to_path_buf());
    match fs::canonicalize(&parent) {
        Ok(cp) => {
            let full = cp.join(name);
            match full.strip_prefix(&croot) {
                Ok(r) => r.to_string_lossy().into_owned(),
                Err(_) => format!("<outside>{}", full.display()),
            }
        }
        Err(_) => lex_norm(rel).unwrap_or_else(|| rel.to_string()),
    }
}
