//! Proving the machinery itself (DESIGN section 5): determinism of scenario
//! execution, and completeness of the libc seam (audit against strace).

use crate::engine::Engine;
use crate::node::{run_node, CallSpec, NodeKind, NodeSpec};
use crate::pool::Pool;
use crate::scenario::{run_scenario, Scenario};
use std::collections::BTreeMap;
use std::process::Command;

fn scenarios(pool: &Pool, seed: u64, n: u64) -> Vec<Scenario> {
    let mut v = Vec::new();
    for i in 0..n {
        v.push(crate::c21::history(pool, seed, i));
        v.push(crate::c23::world(pool, seed, i));
        v.push(crate::c22::sequence_for_selftest(pool, seed, i));
        let t = &pool.all[(i as usize * 7) % pool.all.len()];
        if t.bytes.len() < 3000 {
            v.push(crate::c20::seed_scenario(t, seed, 1 + i % 9, i));
            v.push(crate::c20::batch_scenario(pool, t, seed, i));
            v.push(crate::c20::order_scenario(pool, t, seed, i));
        }
    }
    v
}

pub fn determinism(engine: &Engine, seed: u64, n: u64) -> i32 {
    let pool = Pool::load();
    let scs = scenarios(&pool, seed, n);
    // pass A: one worker, sequential, its own world root
    let a: Vec<u64> = engine.with_ctx("detA-with-a-longer-name", |ctx| scs.iter().map(|s| run_scenario(ctx, s).log_digest).collect());
    // pass B: all workers, other world roots, other unrelated environment in the simulator
    std::env::set_var("VERIF_UNRELATED_NOISE", "x".repeat(777));
    let b: Vec<u64> = engine.par_map(&scs, |ctx, s| run_scenario(ctx, s).log_digest);
    // pass C: again in parallel, reversed job order
    let rev: Vec<&Scenario> = scs.iter().rev().collect();
    let mut c: Vec<u64> = engine.par_map(&rev, |ctx, s| run_scenario(ctx, s).log_digest);
    c.reverse();
    let mut bad = 0;
    for i in 0..scs.len() {
        if a[i] != b[i] || a[i] != c[i] {
            bad += 1;
            if bad <= 5 {
                eprintln!("nondeterministic scenario {} ({} / {}): {:016x} vs {:016x} vs {:016x}", i, scs[i].property, scs[i].label, a[i], b[i], c[i]);
                // show the first differing log line
                std::env::set_var("VERIF_KEEP_LOG", "1");
                let la = engine.with_ctx("detA2", |ctx| run_scenario(ctx, &scs[i]).log);
                let lb = engine.with_ctx("detB2-x", |ctx| run_scenario(ctx, &scs[i]).log);
                for (x, y) in la.iter().zip(lb.iter()) {
                    if x != y {
                        eprintln!("  A: {x}\n  B: {y}");
                        break;
                    }
                }
            }
        }
    }
    println!("selftest-determinism: {} scenarios x 3 executions (1 worker / {} workers / reversed order), {} mismatches", scs.len(), engine.workers, bad);
    if bad > 0 {
        simcore::EXIT_HARNESS
    } else {
        simcore::EXIT_OK
    }
}

fn classify(sys: &str) -> Option<&'static str> {
    Some(match sys {
        "open" | "openat" | "creat" => "open",
        "unlink" | "unlinkat" | "rmdir" => "unlink",
        "mkdir" | "mkdirat" => "mkdir",
        "rename" | "renameat" | "renameat2" => "rename",
        "write" | "writev" | "pwrite64" => "write",
        "ftruncate" | "truncate" => "truncate",
        "link" | "linkat" => "link",
        "symlink" | "symlinkat" => "symlink",
        "fsync" | "fdatasync" => "sync",
        "copy_file_range" | "sendfile" | "splice" => "bulk",
        _ => return None,
    })
}

/// Run representative nodes under strace and demand that every in-world mutating
/// system call has a matching line in the shim's trace.
pub fn audit(engine: &Engine) -> i32 {
    if Command::new("strace").arg("-V").output().is_err() {
        println!("audit: strace not available, skipped");
        return simcore::EXIT_OK;
    }
    let pool = Pool::load();
    let text = pool.by_name("v_tiny_multi").bytes.clone();
    let mut problems = 0;
    let mut checked = 0;
    let specs: Vec<(&str, NodeSpec)> = vec![
        (
            "api-process_dir-report",
            NodeSpec {
                kind: NodeKind::Api { calls: vec![CallSpec { entry: "process_dir".into(), path: Some("src".into()), out_dir: Some("out/deep".into()), report: true, whitespace: true, rerun: true, ..Default::default() }] },
                cwd: String::new(),
                env: vec![],
                hashseed: 3,
                faults: vec![],
                leak: 0,
                canary: true,
                clock: None,
                pid: None,
                reuse_config: false,
            },
        ),
        (
            "cli",
            NodeSpec { kind: NodeKind::Cli { args: vec!["-o".into(), "gen".into(), "--report".into(), "src/a.lalrpop".into(), "src/sub/b.lalrpop".into()] }, cwd: String::new(), env: vec![], hashseed: 0, faults: vec![], leak: 0, canary: false, clock: None, pid: None, reuse_config: false },
        ),
        (
            "api-process_file-faulted",
            NodeSpec {
                kind: NodeKind::Api { calls: vec![CallSpec { entry: "process_file".into(), path: Some("src/a.lalrpop".into()), whitespace: true, ..Default::default() }] },
                cwd: String::new(),
                env: vec![],
                hashseed: 0,
                faults: vec!["4:enospc:10".into()],
                leak: 0,
                canary: false,
                clock: None,
                pid: None,
                reuse_config: false,
            },
        ),
    ];
    engine.with_ctx("audit", |ctx| {
        for (name, spec) in &specs {
            ctx.world.reset();
            let root = ctx.world.root();
            std::fs::create_dir_all(root.join("src/sub")).unwrap();
            std::fs::write(root.join("src/a.lalrpop"), &text).unwrap();
            std::fs::write(root.join("src/sub/b.lalrpop"), &text).unwrap();
            // 1. plain run to learn what the shim records
            let run = run_node(ctx.world, ctx.bins, spec);
            let mut shim: BTreeMap<(String, String), i64> = BTreeMap::new();
            // lines whose fault note means "no system call was made" are not expected in strace
            let no_syscall = ["STICKY", "FAIL", "EINTR", "ENOSPC", "EIO", "KILL"];
            for t in run.trace.iter().filter(|t| t.cls == 'M' && t.op != "rename-from" && t.op != "close" && !no_syscall.contains(&t.note.as_str())) {
                if let (Some(c), Some(rel)) = (classify(&t.op), &t.rel) {
                    *shim.entry((c.to_string(), rel.clone())).or_default() += 1;
                }
            }
            // 2. same world, same node, under strace
            ctx.world.reset();
            std::fs::create_dir_all(root.join("src/sub")).unwrap();
            std::fs::write(root.join("src/a.lalrpop"), &text).unwrap();
            std::fs::write(root.join("src/sub/b.lalrpop"), &text).unwrap();
            let sout = ctx.world.base.join("strace.out");
            let _ = std::fs::remove_file(&sout);
            let mut plan = format!("root={};trace={};hashseed={};clock=1600000000;pid=4242", root.display(), ctx.world.trace().display(), spec.hashseed);
            for f in &spec.faults {
                plan.push_str(";at=");
                plan.push_str(f);
            }
            let _ = std::fs::remove_file(ctx.world.trace());
            let mut cmd = Command::new("strace");
            cmd.arg("-E").arg(format!("LD_PRELOAD={}", ctx.bins.shim.display())).arg("-E").arg(format!("VERIF_SIM_PLAN={plan}")).arg("-E").arg("RUST_BACKTRACE=0");
            cmd.args(["-f", "-y", "-qq", "-s", "0", "-o"]).arg(&sout).args(["-e", "trace=open,openat,creat,unlink,unlinkat,rmdir,mkdir,mkdirat,rename,renameat,renameat2,write,writev,pwrite64,ftruncate,truncate,link,linkat,symlink,symlinkat,fsync,fdatasync,copy_file_range,sendfile,splice"]);
            match &spec.kind {
                NodeKind::Api { .. } => {
                    cmd.arg(&ctx.bins.buildnode).arg(ctx.world.job());
                }
                NodeKind::Cli { args } => {
                    cmd.arg(&ctx.bins.cli).args(args);
                }
            }
            // the shim must be loaded into the traced node only, never into strace itself (a fake
            // pid would confuse its wait loop): `-E` sets variables for the tracee
            cmd.env_clear().current_dir(&root);
            let _ = std::fs::remove_file(ctx.world.res());
            let out = cmd.output();
            if out.is_err() {
                println!("audit: could not run strace, skipped");
                return;
            }
            let st = std::fs::read_to_string(&sout).unwrap_or_default();
            let root_s = root.to_string_lossy().into_owned();
            let mut sys: BTreeMap<(String, String), i64> = BTreeMap::new();
            for line in st.lines() {
                // "<pid> name(args) = ret"
                let rest = line.splitn(2, ' ').nth(1).unwrap_or("").trim_start();
                let name = rest.split('(').next().unwrap_or("");
                let class = match classify(name) {
                    Some(c) => c,
                    None => continue,
                };
                let args = rest.splitn(2, '(').nth(1).unwrap_or("");
                // mutating opens only
                if class == "open" && !(args.contains("O_WRONLY") || args.contains("O_RDWR") || args.contains("O_CREAT") || args.contains("O_TRUNC")) {
                    continue;
                }
                // path: quoted string (with -s 0 strings are elided as ""...) -> use the -y fd annotation <path> when present
                let path = if let (Some(a), Some(b)) = (args.find('<'), args.find('>')) {
                    if a < b { args[a + 1..b].to_string() } else { String::new() }
                } else {
                    String::new()
                };
                if class == "write" || class == "truncate" || class == "sync" {
                    if let Some(rel) = path.strip_prefix(&format!("{root_s}/")) {
                        *sys.entry((class.to_string(), rel.to_string())).or_default() += 1;
                    }
                } else {
                    // path-taking calls: with -s 0 the path text is hidden; count per class only
                    *sys.entry((class.to_string(), "*".to_string())).or_default() += 1;
                }
            }
            // compare writes per path exactly, other classes by count of in-world calls (strace also
            // shows out-of-world opens such as the job file or the loader, so shim <= strace there)
            for ((class, path), n) in &sys {
                if path != "*" {
                    checked += 1;
                    let m = shim.get(&(class.clone(), path.clone())).copied().unwrap_or(0);
                    if m != *n {
                        problems += 1;
                        eprintln!("audit[{name}]: {class} on `{path}`: strace saw {n}, shim recorded {m}");
                    }
                }
            }
            for class in ["open", "unlink", "mkdir", "rename", "link", "symlink"] {
                let s: i64 = sys.iter().filter(|((c, p), _)| c == class && p == "*").map(|(_, n)| *n).sum();
                let m: i64 = shim.iter().filter(|((c, _), _)| c == class).map(|(_, n)| *n).sum();
                checked += 1;
                // out-of-world calls of these classes made by a node: opening the result file / job file (open only)
                let slack = if class == "open" { 3 } else { 0 };
                if m > s || s - m > slack {
                    problems += 1;
                    eprintln!("audit[{name}]: class {class}: strace saw {s} calls, shim recorded {m} in-world (allowed out-of-world slack {slack})");
                }
            }
            let bulk: i64 = sys.iter().filter(|((c, _), _)| c == "bulk").map(|(_, n)| *n).sum();
            if bulk > 0 {
                problems += 1;
                eprintln!("audit[{name}]: {bulk} bulk-copy system calls reached the kernel");
            }
        }
    });
    println!("seam audit: {checked} comparisons between strace and the shim trace, {problems} problems");
    if problems > 0 {
        simcore::EXIT_HARNESS
    } else {
        simcore::EXIT_OK
    }
}
