//! C21 -- non-forced builds never leave a stale or foreign output.
//! Seeded histories of edits / output damage / builds, checked against the
//! reference model after every build (DESIGN section 4, C21).

use crate::engine::{Engine, Reporter};
use crate::node::{CallSpec, NodeKind, NodeSpec};
use crate::ops::{HeaderEdit, Op};
use crate::pool::{apply_edit, Edit, Pool, ERROR_EDITS, VALID_EDITS};
use crate::scenario::{run_scenario, Outcome, Scenario};
use serde_json::json;
use simcore::{Content, Evidence, Rng};
use std::collections::{BTreeMap, BTreeSet};
use std::time::Instant;

#[derive(Clone)]
struct G {
    path: String,
    out: String,
    /// current text and the stack of earlier texts (for revert)
    text: Vec<u8>,
    history: Vec<Vec<u8>>,
    last_valid: Vec<u8>,
    present: bool,
}

struct Layout {
    kind: usize,
    report: bool,
    comments: bool,
    rerun: bool,
}

impl Layout {
    fn grammar_path(&self, i: usize) -> String {
        match self.kind {
            0 => format!("src/g{i}.lalrpop"),
            1 => format!("g{i}.lalrpop"),
            2 => {
                if i % 2 == 0 {
                    format!("src/g{i}.lalrpop")
                } else {
                    format!("src/deep/er/g{i}.lalrpop")
                }
            }
            _ => format!("gram/g{i}.lalrpop"),
        }
    }
    fn out_path(&self, i: usize) -> String {
        match self.kind {
            0 => format!("out/g{i}.rs"),
            1 => format!("g{i}.rs"),
            2 => {
                if i % 2 == 0 {
                    format!("target/o/g{i}.rs")
                } else {
                    format!("target/o/deep/er/g{i}.rs")
                }
            }
            _ => format!("gen/g{i}.rs"),
        }
    }
    fn node(&self, gs: &[G], force: bool) -> NodeSpec {
        let base = CallSpec { force, report: self.report, comments: self.comments, rerun: self.rerun, whitespace: true, ..Default::default() };
        let (kind, env) = match self.kind {
            0 => (NodeKind::Api { calls: vec![CallSpec { entry: "process_dir".into(), path: Some("src".into()), out_dir: Some("out".into()), ..base }] }, vec![]),
            1 => {
                // one process_file call per present grammar, beside the input
                let calls: Vec<CallSpec> = gs.iter().filter(|g| g.present).map(|g| CallSpec { entry: "process_file".into(), path: Some(g.path.clone()), ..base.clone() }).collect();
                (NodeKind::Api { calls }, vec![])
            }
            2 => (NodeKind::Api { calls: vec![CallSpec { entry: "process".into(), cargo_conventions: true, ..base }] }, vec![("OUT_DIR".to_string(), "{ROOT}/target/o".to_string())]),
            _ => {
                let mut args: Vec<String> = vec!["--out-dir".into(), "gen".into()];
                if force {
                    args.push("-f".into());
                }
                if self.report {
                    args.push("--report".into());
                }
                if self.comments {
                    args.push("--comments".into());
                }
                for g in gs.iter().filter(|g| g.present) {
                    args.push(g.path.clone());
                }
                (NodeKind::Cli { args }, vec![])
            }
        };
        NodeSpec { kind, cwd: String::new(), env, hashseed: 0, faults: vec![], leak: 0, canary: false, clock: None, pid: None, reuse_config: false }
    }
}

fn header_edit(rng: &mut Rng) -> HeaderEdit {
    match rng.below(13) {
        0 | 1 => HeaderEdit::FlipHashDigit { pos: rng.below(64) as usize },
        2 => HeaderEdit::TruncateHashLine { keep: rng.below(70) as usize },
        3 | 4 => HeaderEdit::ChangeVersion { to: rng.pick(&["0.19.0", "0.23.0", "0.23.10", "1.0.0", ""]).to_string() },
        5 => HeaderEdit::SwapLines,
        6 => HeaderEdit::TruncateFile { bytes: *rng.pick(&[0usize, 1, 10, 34, 35, 36, 50, 100, 107, 108]) },
        7 => HeaderEdit::TruncateFile { bytes: rng.below(109) as usize },
        8 => HeaderEdit::Garbage { line: rng.below(2) as usize, hex: rng.pick(&["fffe", "00", "c328", "e28282", "f0288c28"]).to_string() },
        9 | 12 => HeaderEdit::Garbage { line: rng.below(2) as usize, hex: rng.pick(&["7878", "2f2a", "23"]).to_string() },
        10 => match rng.below(5) {
            0 => HeaderEdit::DropVersionLine,
            1 => HeaderEdit::UppercaseHash,
            2 => HeaderEdit::AppendToHashLine { text: rng.pick(&["0", "ab", " stale", "x"]).to_string() },
            3 => HeaderEdit::AppendToVersionLine { text: rng.pick(&["0", " (modified)", "\"", "-beta"]).to_string() },
            _ => HeaderEdit::UppercaseVersionLine,
        },
        _ => HeaderEdit::FlipHashDigit { pos: 63 },
    }
}

pub fn history(pool: &Pool, seed: u64, n: u64) -> Scenario {
    let mut rng = Rng::derive(seed, 300_000 + n);
    let layout = Layout { kind: rng.below(4) as usize, report: rng.chance(1, 8), comments: rng.chance(1, 10), rerun: rng.chance(1, 6) };
    let texts = if rng.chance(3, 4) {
        pool.tiny()
    } else if rng.chance(1, 16) {
        // now and then grammars of a few KB (outputs of 50-250 KB)
        pool.all.iter().filter(|t| t.class == crate::pool::Class::Valid && t.bytes.len() > 700 && t.bytes.len() < 3500).collect()
    } else {
        pool.valid_small()
    };
    let errors = pool.errors();
    let ngram = rng.range(1, 4) as usize;
    let transparent = rng.chance(1, 2);
    let mut gs: Vec<G> = Vec::new();
    let mut ops: Vec<Op> = Vec::new();
    for i in 0..ngram {
        let t = rng.pick(&texts).bytes.clone();
        let g = G { path: layout.grammar_path(i), out: layout.out_path(i), text: t.clone(), history: vec![], last_valid: t.clone(), present: true };
        ops.push(Op::Write { path: g.path.clone(), content: Content::from_bytes(&t) });
        gs.push(g);
    }
    let len = rng.range(4, 25);
    let mut edit_no = 0u64;
    let build = |ops: &mut Vec<Op>, gs: &[G], rng: &mut Rng, force: bool, edit_counter: &mut u64, pending_edits: &mut Vec<(usize, Vec<u8>)>| {
        let mut node = layout.node(gs, force);
        if let NodeKind::Api { calls } = &node.kind {
            if calls.is_empty() {
                return;
            }
        }
        if layout.kind == 3 && !gs.iter().any(|g| g.present) {
            return; // the CLI refuses an empty input list; nothing to check
        }
        // a long-lived process: it builds, the grammar changes under it, it builds again -- through
        // one reused `Configuration` value (state carried from one build to the next in memory)
        if layout.kind != 3 && rng.chance(1, 5) {
            let rounds = rng.range(1, 2);
            let mut all_calls: Vec<CallSpec> = match &node.kind {
                NodeKind::Api { calls } => calls.clone(),
                _ => vec![],
            };
            for _ in 0..rounds {
                let present: Vec<usize> = gs.iter().enumerate().filter(|(_, g)| g.present).map(|(i, _)| i).collect();
                if present.is_empty() {
                    break;
                }
                let gi = *rng.pick(&present);
                *edit_counter += 1;
                let nt = match rng.below(10) {
                    0..=5 => apply_edit(&gs[gi].last_valid, *rng.pick(VALID_EDITS), *edit_counter),
                    6..=7 => apply_edit(&gs[gi].last_valid, *rng.pick(ERROR_EDITS), *edit_counter),
                    _ => gs[gi].last_valid.clone(),
                };
                pending_edits.push((gi, nt.clone()));
                all_calls.push(CallSpec { entry: "write_file".into(), path: Some(gs[gi].path.clone()), write_hex: Some(simcore::hex(&nt)), whitespace: true, ..Default::default() });
                if let NodeKind::Api { calls } = &layout.node(gs, false).kind {
                    all_calls.extend(calls.iter().cloned());
                }
            }
            node.kind = NodeKind::Api { calls: all_calls };
            node.reuse_config = rng.chance(3, 4);
        }
        if transparent {
            for _ in 0..rng.below(4) {
                let f = match rng.below(4) {
                    0 => format!("{}:short:{}", rng.below(12), rng.range(1, 50)),
                    1 => format!("{}:eintr", rng.below(12)),
                    2 => format!("r{}:short:{}", rng.below(10), rng.range(1, 40)),
                    _ => format!("r{}:eintr", rng.below(10)),
                };
                node.faults.push(f);
            }
        }
        ops.push(Op::Build { node, tag: "check".into() });
    };
    for _ in 0..len {
        let gi = rng.below(gs.len() as u64) as usize;
        match rng.below(100) {
            0..=29 => {
                let force = rng.chance(1, 6);
                let mut pending: Vec<(usize, Vec<u8>)> = Vec::new();
                build(&mut ops, &gs, &mut rng, force, &mut edit_no, &mut pending);
                // the model's view of the grammars follows the edits the node made itself
                for (gi, nt) in pending {
                    let g = &mut gs[gi];
                    g.history.push(g.text.clone());
                    g.text = nt.clone();
                    if std::str::from_utf8(&nt).is_ok() && !nt.is_empty() && !nt.ends_with(b"not a grammar\n") && !String::from_utf8_lossy(&nt).contains("MissingSymbol") {
                        g.last_valid = nt;
                    }
                }
            }
            30..=44 => {
                // valid edit
                let g = &mut gs[gi];
                if !g.present {
                    continue;
                }
                edit_no += 1;
                let e = *rng.pick(VALID_EDITS);
                let base = if rng.chance(1, 5) { rng.pick(&texts).bytes.clone() } else { g.last_valid.clone() };
                let nt = apply_edit(&base, e, edit_no);
                g.history.push(g.text.clone());
                g.text = nt.clone();
                g.last_valid = nt.clone();
                if rng.chance(1, 5) {
                    ops.push(Op::WriteKeepMtime { path: g.path.clone(), content: Content::from_bytes(&nt) });
                } else {
                    ops.push(Op::Write { path: g.path.clone(), content: Content::from_bytes(&nt) });
                }
            }
            45..=51 => {
                // revert
                let g = &mut gs[gi];
                if !g.present {
                    continue;
                }
                if let Some(prev) = g.history.pop() {
                    g.text = prev.clone();
                    if std::str::from_utf8(&prev).is_ok() && !prev.is_empty() {
                        // may be an error text; last_valid only moves on valid edits
                    }
                    ops.push(Op::Write { path: g.path.clone(), content: Content::from_bytes(&prev) });
                }
            }
            52..=56 => ops.push(Op::Touch { path: gs[gi].path.clone() }),
            57..=60 => ops.push(Op::SetMtime { path: gs[gi].path.clone(), secs: *rng.pick(&[-400_000_000i64, 0, 86_400, 900_000_000]) }),
            61..=64 => ops.push(Op::SetMtime { path: gs[gi].out.clone(), secs: *rng.pick(&[-400_000_000i64, 0, 900_000_000]) }),
            65..=71 => ops.push(Op::Remove { path: gs[gi].out.clone() }),
            72..=81 => ops.push(Op::EditHeader { path: gs[gi].out.clone(), edit: header_edit(&mut rng) }),
            82..=83 => {
                // a foreign file at the output path: hand-written code, junk, or another grammar's output
                match rng.below(3) {
                    0 => ops.push(Op::Write { path: gs[gi].out.clone(), content: Content::Text("// hand-written\npub fn not_a_parser() {}\n".into()) }),
                    1 => ops.push(Op::Write { path: gs[gi].out.clone(), content: Content::Hex("00ff10800a0a7f454c46".into()) }),
                    _ => {
                        let other = rng.below(gs.len() as u64) as usize;
                        if other != gi {
                            ops.push(Op::Copy { from: gs[other].out.clone(), to: gs[gi].out.clone() });
                        }
                    }
                }
            }
            84..=91 => {
                // introduce an error
                let g = &mut gs[gi];
                if !g.present {
                    continue;
                }
                edit_no += 1;
                let nt = if rng.chance(1, 3) { rng.pick(&errors).bytes.clone() } else { apply_edit(&g.last_valid, *rng.pick(ERROR_EDITS), edit_no) };
                g.history.push(g.text.clone());
                g.text = nt.clone();
                ops.push(Op::Write { path: g.path.clone(), content: Content::from_bytes(&nt) });
            }
            92..=95 => {
                // remove the error: back to the last valid text
                let g = &mut gs[gi];
                if !g.present {
                    continue;
                }
                g.history.push(g.text.clone());
                g.text = g.last_valid.clone();
                ops.push(Op::Write { path: g.path.clone(), content: Content::from_bytes(&g.last_valid) });
            }
            96..=97 => {
                // add a grammar
                if gs.len() < 5 {
                    let i = gs.len();
                    let t = rng.pick(&texts).bytes.clone();
                    let g = G { path: layout.grammar_path(i), out: layout.out_path(i), text: t.clone(), history: vec![], last_valid: t.clone(), present: true };
                    ops.push(Op::Write { path: g.path.clone(), content: Content::from_bytes(&t) });
                    gs.push(g);
                }
            }
            _ => {
                // remove a grammar (its output is no longer anybody's business)
                let g = &mut gs[gi];
                if g.present && rng.chance(1, 2) {
                    g.present = false;
                    ops.push(Op::Remove { path: g.path.clone() });
                } else if !g.present {
                    g.present = true;
                    ops.push(Op::Write { path: g.path.clone(), content: Content::from_bytes(&g.text) });
                }
            }
        }
    }
    // closing clean non-forced build
    let mut node = layout.node(&gs, false);
    node.faults.clear();
    if !matches!(&node.kind, NodeKind::Api { calls } if calls.is_empty()) && !(layout.kind == 3 && !gs.iter().any(|g| g.present)) {
        ops.push(Op::Build { node, tag: "check".into() });
    }
    Scenario { property: "C21".into(), seed, label: format!("history-{n}-layout{}{}", layout.kind, if transparent { "-transparent" } else { "" }), ops }
}

pub fn run(engine: &Engine, tier: &str, seed: u64) -> i32 {
    let t0 = Instant::now();
    let thorough = tier == "thorough";
    let pool = Pool::load();
    let n = if thorough { 20_000u64 } else { 1_500 };
    let ids: Vec<u64> = (0..n).collect();
    let outs: Vec<(Scenario, Outcome)> = engine.par_map(&ids, |ctx, i| {
        let sc = history(&pool, seed, *i);
        let out = run_scenario(ctx, &sc);
        (sc, out)
    });
    let mut rep = Reporter::new("C21");
    let mut probes = crate::check::Probes::default();
    let mut fired: BTreeMap<String, u64> = BTreeMap::new();
    let mut trans: BTreeSet<(String, String, String)> = BTreeSet::new();
    let mut op_kinds: BTreeMap<String, u64> = BTreeMap::new();
    let mut builds = 0u64;
    let mut total_ops = 0u64;
    for (sc, out) in &outs {
        probes.add(&out.probes);
        builds += out.builds;
        total_ops += sc.ops.len() as u64;
        for (k, v) in &out.fired {
            *fired.entry(k.clone()).or_default() += v;
        }
        for t in &out.transitions {
            trans.insert(t.clone());
        }
        for o in &sc.ops {
            *op_kinds.entry(o.kind().to_string()).or_default() += 1;
        }
        if !out.violations.is_empty() {
            rep.add(sc, &out.violations);
        }
    }
    let (unlisted, known) = rep.finish(engine);
    let wall = t0.elapsed().as_secs_f64();
    let mut samples = Vec::new();
    for (sc, _) in outs.iter().take(3) {
        samples.push(json!(sc));
    }
    let mut extra = BTreeMap::new();
    extra.insert("histories".to_string(), json!(outs.len()));
    extra.insert("ops_executed".to_string(), json!(total_ops));
    extra.insert("builds_checked".to_string(), json!(builds));
    extra.insert("op_mix".to_string(), json!(op_kinds));
    extra.insert("fault_kinds_fired".to_string(), json!(fired));
    extra.insert("reach_probes".to_string(), probes.to_json());
    extra.insert("abstract_transitions_seen".to_string(), json!(trans.iter().map(|(a, b, c)| format!("{a}: {b} -> {c}")).collect::<Vec<_>>()));
    extra.insert("runs_per_hour".to_string(), json!((outs.len() as f64 / wall * 3600.0) as u64));
    extra.insert("simulated_time".to_string(), json!("none: lalrpop reads no clock; file mtimes are set by simulator ops (touch, back-date, future-date) and must not matter"));
    extra.insert("real_components".to_string(), json!(["lalrpop library and CLI (working tree)", "Rust std I/O", "walkdir", "kernel tmpfs"]));
    extra.insert("stubbed_components".to_string(), json!(["interposed libc calls (transparent faults only: short read/write, EINTR)", "getrandom (fixed hash seed 0)"]));
    extra.insert("known_findings_reported".to_string(), json!(known));
    extra.insert("oracle_builds".to_string(), json!(*engine.oracle.computed.lock().unwrap()));
    if thorough {
        let p = &probes;
        if p.skipped_current == 0 || p.rebuilt_stale_hash == 0 || p.rebuilt_stale_version == 0 || p.failed_and_removed == 0 || p.stopped_at_first_failure == 0 {
            simcore::harness_error("C21: a reach probe is zero");
        }
    }
    Evidence {
        property_id: "C21".into(),
        tier: tier.into(),
        seed,
        level: "exploration".into(),
        evaluations: outs.len() as u64,
        distinct_nontrivial: trans.len() as u64,
        rule: "seeded histories of 4-25 ops over 1-5 grammars in one world (edit, revert, touch, keep-mtime edit, back/future-date, build, forced build, delete output, alter version/hash header incl. non-UTF-8 bytes, introduce/remove error, add/remove grammar), four entry-point layouts, half the runs with transparent short/EINTR faults; every fifth API build is a long-lived process that builds, has the grammar changed under it (valid edit / error / revert, written by the node itself) and builds again through one reused Configuration value; edit families include comment, blank-line, trailing-space, CR LF <-> LF, tab and appended-rule edits; foreign files (hand-written code, junk, another grammar's output) are planted at output paths; after EVERY build the reference model demands: processed outputs byte-identical to a forced build, failed grammars leave no output, current outputs untouched (no mutating call on the path, same inode and mtime), Ok iff nothing failed. distinct_nontrivial = distinct (text class, kind of the op that preceded the build, output status before, output status after) transitions observed at checked builds".into(),
        samples,
        exhaustive: false,
        assumptions: vec![
            "white-space-only edits of header lines, output-path collisions and body edits under an intact header are outside the stated contract and are not generated".into(),
            "content oracle is lalrpop itself (forced build of the same text in a clean world)".into(),
            "emit_report and the other byte-changing flags are constant within one history".into(),
        ],
        wall_s: wall,
        violations: unlisted,
        extra,
    }
    .write();
    println!("C21 {tier}: {} histories, {} builds checked, {} transitions, {} unlisted violations, {} known findings, {:.1}s", outs.len(), builds, trans.len(), unlisted, known, wall);
    if unlisted > 0 {
        simcore::EXIT_VIOLATION
    } else {
        simcore::EXIT_OK
    }
}
