//! A scenario = property + explicit op list.  `run_scenario` executes it in a
//! fresh world and returns violations, reach probes and a deterministic event
//! log (used by the determinism self-test and for replay comparison).

use crate::check::{checked_build, Ctx, Failure, Probes};
use crate::node::{run_node, NodeRun};
use crate::ops::{apply_fs_op, Op};
use crate::world::digest_tree;
use serde::{Deserialize, Serialize};
use simcore::Fnv;
use std::collections::BTreeMap;

#[derive(Clone, Debug, Serialize, Deserialize, PartialEq)]
pub struct Scenario {
    pub property: String,
    pub seed: u64,
    #[serde(default)]
    pub label: String,
    pub ops: Vec<Op>,
}

#[derive(Clone, Debug)]
pub struct Violation {
    pub property: String,
    pub invariant: String,
    pub key: String,
    pub detail: String,
    pub op_index: usize,
}

#[derive(Default)]
pub struct Outcome {
    pub violations: Vec<Violation>,
    pub probes: Probes,
    pub log_digest: u64,
    pub log: Vec<String>,
    /// fault notes that actually fired, by kind
    pub fired: BTreeMap<String, u64>,
    pub unfired: u64,
    pub builds: u64,
    pub transitions: Vec<(String, String, String)>,
    /// description of the last fault that fired: (class, role)
    pub last_fault: Option<(String, String)>,
    /// HashSet iteration orders reported by build nodes (reach measure of the hash-seed seam)
    pub canaries: Vec<String>,
}

fn role_of(path: &str) -> &'static str {
    if path.ends_with(".rs") {
        "final-rs"
    } else if path.ends_with(".report") {
        "report"
    } else if path.ends_with(".lalrpop") {
        "grammar"
    } else if path.contains(".tmp") || path.contains("tmp") {
        "temporary"
    } else {
        "other"
    }
}

fn fault_class(note: &str) -> &'static str {
    match note {
        "KILL" => "kill",
        "KILLW" => "torn-write",
        "ENOSPC" | "ENOSPC-short" | "STICKY" => "enospc",
        "EIO" | "EIO-short" => "eio",
        "FAIL" => "fail-call",
        "SHORT" => "short",
        "EINTR" => "eintr",
        _ => "other",
    }
}

fn record_faults(run: &NodeRun, out: &mut Outcome) {
    for t in &run.trace {
        if (t.cls == 'M' || t.cls == 'R') && !t.note.is_empty() && t.note != "STICKY" {
            let cls = fault_class(&t.note);
            *out.fired.entry(cls.to_string()).or_default() += 1;
            if cls != "short" && cls != "eintr" {
                let role = if t.op == "mkdir" { "directory" } else { role_of(&t.path) };
                let detail = if t.cls == 'R' { format!("{}-read", cls) } else { cls.to_string() };
                out.last_fault = Some((detail, format!("{}:{}", t.op.replace("writev", "write"), role)));
            }
        }
    }
    out.unfired += run.unfired;
}

fn log_run(run: &NodeRun, log: &mut Vec<String>) {
    log.push(format!("exit={:?} sig={:?} done={} results={}", run.exit_code, run.signal, run.done, run.results.iter().map(|r| r.status.as_str()).collect::<Vec<_>>().join(",")));
    for t in &run.trace {
        if t.cls == 'S' || t.cls == 'E' {
            // E carries the getrandom call count; keep it (it must be deterministic too)
        }
        log.push(format!("{} {} {} {} {} {} {}", t.cls, t.seq, t.op, t.rel.clone().unwrap_or_else(|| "<out>".into()), if t.op.starts_with("open") || t.op == "close" { 0 } else { t.arg }, if t.op.starts_with("open") && t.res >= 0 { 0 } else { t.res }, t.note));
    }
    let directives: Vec<&str> = run.stdout.lines().filter(|l| l.starts_with("cargo:")).collect();
    log.push(format!("directives={}", directives.len()));
}

pub fn claimed(property: &str, tag: &str, inv: &str) -> Option<&'static str> {
    match property {
        "C21" => match inv {
            "current-after-build" => Some("current-after-build"),
            "absent-after-failed-build" => Some("absent-after-failed-build"),
            "untouched-when-current" => Some("untouched-when-current"),
            "ok-iff-all-built" => Some("ok-iff-all-built"),
            "no-panic" => Some("ok-iff-all-built"),
            _ => None,
        },
        "C22" => {
            if tag != "final" {
                return None;
            }
            match inv {
                "current-after-build" | "report-current-after-build" | "ok-iff-all-built" | "absent-after-failed-build" | "no-panic" => Some("recovers-after-fault"),
                _ => None,
            }
        }
        "C20" => match inv {
            "current-after-build" | "report-current-after-build" => Some("same-bytes"),
            "ok-iff-all-built" | "absent-after-failed-build" | "no-panic" => Some("same-outcome"),
            _ => None,
        },
        "C23" => match inv {
            "mutated-set-equals-expected" => Some("mutated-set-equals-expected"),
            "current-after-build" => Some("content-at-expected-path"),
            "whitespace-rejected" => Some("whitespace-rejected"),
            "directives-name-processed" => Some("directives-name-processed"),
            "ok-iff-all-built" => Some("ok-iff-all-built"),
            "no-panic" => Some("no-panic"),
            "absent-after-failed-build" => None,
            _ => None,
        },
        _ => None,
    }
}

fn key_for(property: &str, inv: &str, orig_inv: &str, f: &Failure, out: &Outcome, last_op: &str, node: &crate::node::NodeSpec) -> String {
    let g = |k: &str| f.facets.get(k).cloned().unwrap_or_else(|| "-".into());
    match property {
        "C22" => {
            let (fc, role) = out.last_fault.clone().unwrap_or_else(|| ("none".into(), "none".into()));
            let after = if orig_inv == "current-after-build" {
                g("post")
            } else {
                orig_inv.to_string()
            };
            format!("{inv}|fault={fc}|at={role}|after={after}")
        }
        "C20" => {
            let multi = match &node.kind {
                crate::node::NodeKind::Api { calls } => calls.len() > 1 || calls.iter().any(|c| c.entry != "process_file"),
                crate::node::NodeKind::Cli { args } => args.iter().filter(|a| a.ends_with(".lalrpop")).count() > 1,
            };
            let extra_env = node.env.iter().any(|(k, _)| k != "OUT_DIR" && !k.starts_with("CARGO_FEATURE_"));
            let varies = if node.hashseed != 0 {
                "hash-seed"
            } else if node.clock.is_some() {
                "clock"
            } else if node.pid.is_some() {
                "pid"
            } else if extra_env {
                "environment"
            } else if multi {
                "batch-or-order"
            } else if node.leak > 0 {
                "address-shift"
            } else {
                "file-name-or-directory"
            };
            format!("{inv}|varies={varies}|text={}|what={}|msg={}", g("text"), orig_inv, g("msg"))
        }
        "C21" => {
            let _ = last_op;
            let mut k = format!("{inv}|text={}|pre={}", g("text"), g("pre"));
            if orig_inv == "no-panic" {
                k = format!("{inv}|panic");
            }
            if orig_inv == "ok-iff-all-built" {
                k = format!("{inv}|expected={}|files={}", g("expected"), g("files"));
            }
            k
        }
        "C23" => {
            let mut k = inv.to_string();
            if let Some(n) = f.facets.get("name") {
                // a degenerate file name is the cause whatever the entry point
                return format!("{k}|name={n}");
            }
            for (name, v) in &f.facets {
                if matches!(*name, "name" | "op" | "mode" | "kind" | "expected" | "entry" | "post" | "files") {
                    k.push_str(&format!("|{name}={v}"));
                }
            }
            k
        }
        _ => inv.to_string(),
    }
}

pub fn run_scenario(ctx: &Ctx, sc: &Scenario) -> Outcome {
    run_ops(ctx, sc, true)
}

pub fn run_ops(ctx: &Ctx, sc: &Scenario, reset: bool) -> Outcome {
    let mut out = Outcome::default();
    if reset {
        ctx.world.reset();
    }
    let root = ctx.world.root();
    let mut last_op = "none".to_string();
    for (i, op) in sc.ops.iter().enumerate() {
        match op {
            Op::Build { node, tag } => {
                out.builds += 1;
                out.log.push(format!("op{i} build tag={tag} faults={:?} hs={}", node.faults, node.hashseed));
                let checked = tag == "check" || tag == "final";
                if checked {
                    let obs = checked_build(ctx, node);
                    log_run(&obs.run, &mut out.log);
                    record_faults(&obs.run, &mut out);
                    if let Some(c) = &obs.run.canary {
                        out.canaries.push(c.clone());
                    }
                    out.probes.add(&obs.probes);
                    // abstract transition = (text class, output status before, after) reached after this kind of op
                    out.transitions.extend(obs.transitions.iter().map(|(a, b, c)| (format!("{a} after {last_op}"), b.clone(), c.clone())));
                    for f in &obs.failures {
                        if let Some(inv) = claimed(&sc.property, tag, f.invariant) {
                            let key = key_for(&sc.property, inv, f.invariant, f, &out, &last_op, node);
                            out.violations.push(Violation {
                                property: sc.property.clone(),
                                invariant: inv.to_string(),
                                key,
                                detail: format!("[{}] {} {}", f.invariant, f.path, f.detail),
                                op_index: i,
                            });
                        }
                    }
                } else {
                    let run = run_node(ctx.world, ctx.bins, node);
                    log_run(&run, &mut out.log);
                    record_faults(&run, &mut out);
                }
                if tag != "final" {
                    last_op = format!("build:{tag}");
                }
            }
            other => {
                apply_fs_op(ctx.world, other);
                out.log.push(format!("op{i} {}", other.kind()));
                last_op = match other {
                    Op::EditHeader { edit, .. } => format!("edit_header:{}", serde_json::to_value(edit).ok().and_then(|v| v.as_object().and_then(|o| o.keys().next().cloned()).or_else(|| v.as_str().map(|s| s.to_string()))).unwrap_or_default()),
                    o => o.kind().to_string(),
                };
            }
        }
        out.log.push(format!("tree={:016x}", digest_tree(&root)));
    }
    let mut f = Fnv::new();
    for l in &out.log {
        f.write_str(l);
    }
    out.log_digest = f.finish();
    if !keep_log() {
        // tens of thousands of scenarios are held at once in the thorough tiers
        out.log = Vec::new();
    }
    out
}

fn keep_log() -> bool {
    static KEEP: std::sync::OnceLock<bool> = std::sync::OnceLock::new();
    *KEEP.get_or_init(|| std::env::var("VERIF_KEEP_LOG").is_ok() || std::env::var("VERIF_VERBOSE").is_ok())
}
