//! C20 -- code generation is deterministic.  The simulator owns the hash
//! seed (getrandom), the batch composition, the in-process order, names,
//! directories, address shift and environment noise; whatever it chooses, the
//! bytes written for a grammar (and whether the call succeeds) must equal the
//! reference: a forced build of that text alone, hash seed 0.

use crate::engine::{Engine, Reporter};
use crate::node::{CallSpec, NodeKind, NodeSpec};
use crate::ops::Op;
use crate::pool::{Class, Pool, PoolText};
use crate::scenario::{run_scenario, Outcome, Scenario};
use serde_json::json;
use simcore::{Content, Evidence, Rng};
use std::collections::{BTreeMap, BTreeSet};
use std::time::Instant;

fn noise(rng: &mut Rng) -> Vec<(String, String)> {
    let mut v = Vec::new();
    for i in 0..rng.below(4) {
        v.push((format!("NOISE_{i}"), "x".repeat(rng.range(1, 300) as usize)));
    }
    // variables a generator might be tempted to read (none of them is part of the configuration)
    const WELL_KNOWN: &[(&str, &[&str])] = &[
        ("USER", &["alice", "root"]),
        ("HOME", &["/home/alice", "/root"]),
        ("PWD", &["/somewhere/else"]),
        ("LANG", &["C", "de_DE.UTF-8"]),
        ("TZ", &["UTC", "Asia/Tokyo"]),
        ("SOURCE_DATE_EPOCH", &["0", "1700000000"]),
        ("CARGO_PKG_NAME", &["demo", "other-crate"]),
        ("CARGO_MANIFEST_DIR", &["/work/demo"]),
        ("CARGO_PKG_VERSION", &["9.9.9"]),
        ("RUSTFLAGS", &["-Copt-level=3"]),
        ("TERM", &["xterm-256color", "dumb"]),
        ("HOSTNAME", &["builder-17"]),
        ("LALRPOP_LANE_TABLE", &["enabled"]),
    ];
    for (k, vals) in WELL_KNOWN {
        if rng.chance(1, 4) {
            v.push((k.to_string(), rng.pick(vals).to_string()));
        }
    }
    v
}

/// (clock start, pid): the simulated date moves over decades, the pid over the whole range
fn clock_pid(rng: &mut Rng) -> (Option<i64>, Option<i64>) {
    let clock = if rng.chance(2, 3) { Some(*rng.pick(&[86_400i64, 946_684_800, 1_600_000_000, 1_790_000_000, 2_147_483_000, 4_102_444_800])) } else { None };
    let pid = if rng.chance(2, 3) { Some(rng.range(2, 4_000_000) as i64) } else { None };
    (clock, pid)
}

fn flags(rng: &mut Rng) -> CallSpec {
    CallSpec { comments: rng.chance(1, 6), whitespace: !rng.chance(1, 6), report: rng.chance(1, 6), ..Default::default() }
}

/// (a) one grammar alone under hash seed `h`
pub fn seed_scenario(t: &PoolText, seed: u64, h: u64, n: u64) -> Scenario {
    let mut rng = Rng::derive(seed, 700_000 + n);
    let f = flags(&mut rng);
    let name = rng.pick(&["g.lalrpop", "sub/dir/parser.lalrpop", "Other_Name9.lalrpop", "a/very/deeply/nested/directory/structure/indeed/x.lalrpop", "ünï/grämmar.lalrpop"]).to_string();
    let cp = clock_pid(&mut rng);
    // the same file reached through different spellings and from different working directories
    let (spelled, cwd) = match rng.below(5) {
        0 => (format!("{{ROOT}}/{name}"), String::new()),
        1 => (format!("../{name}"), "elsewhere".to_string()),
        2 => (format!("./{name}"), String::new()),
        _ => (name.clone(), String::new()),
    };
    let node = NodeSpec {
        kind: NodeKind::Api { calls: vec![CallSpec { entry: "process_file".into(), path: Some(spelled), ..f }] },
        cwd,
        env: noise(&mut rng),
        hashseed: h,
        faults: vec![],
        leak: if rng.chance(1, 3) { rng.below(500) as u32 } else { 0 },
        canary: true,
        clock: cp.0,
        pid: cp.1,
        reuse_config: false,
    };
    Scenario {
        property: "C20".into(),
        seed,
        label: format!("seeds:{}:h{h}", t.name),
        ops: vec![Op::Write { path: name, content: Content::from_bytes(&t.bytes) }, Op::Build { node, tag: "check".into() }],
    }
}

/// (b) a directory batch with the target sorting first / middle / last
pub fn batch_scenario(pool: &Pool, t: &PoolText, seed: u64, n: u64) -> Scenario {
    let mut rng = Rng::derive(seed, 800_000 + n);
    let f = flags(&mut rng);
    let others = pool.valid_small();
    let cp = clock_pid(&mut rng);
    // mostly small batches; now and then a long one (state that grows with the number of files)
    let k = if rng.chance(1, 6) { rng.range(10, 16) as usize } else { rng.range(1, 4) as usize };
    let pos = rng.below(3);
    let target_name = match pos {
        0 => "aaa_target.lalrpop",
        1 => "mmm_target.lalrpop",
        _ => "zzz_target.lalrpop",
    };
    let mut ops = Vec::new();
    let mut entries: Vec<(String, Vec<u8>)> = vec![(format!("src/{target_name}"), t.bytes.clone())];
    for i in 0..k {
        let o = rng.pick(&others);
        let prefix = *rng.pick(&["b", "n", "y", "deep/c", "deep/x"]);
        entries.push((format!("src/{prefix}{i}_{}.lalrpop", o.name), o.bytes.clone()));
    }
    rng.shuffle(&mut entries);
    for (p, b) in &entries {
        ops.push(Op::Write { path: p.clone(), content: Content::from_bytes(b) });
    }
    let node = NodeSpec {
        kind: NodeKind::Api { calls: vec![CallSpec { entry: "process_dir".into(), path: Some("src".into()), out_dir: Some("out".into()), ..f }] },
        cwd: String::new(),
        env: noise(&mut rng),
        hashseed: rng.below(64),
        faults: vec![],
        leak: if rng.chance(1, 3) { rng.below(500) as u32 } else { 0 },
        canary: true,
        clock: cp.0,
        pid: cp.1,
        reuse_config: false,
    };
    ops.push(Op::Build { node, tag: "check".into() });
    Scenario { property: "C20".into(), seed, label: format!("batch:{}:pos{pos}", t.name), ops }
}

/// (c) several process_file calls in one process, PRNG-chosen order, target generated twice
pub fn order_scenario(pool: &Pool, t: &PoolText, seed: u64, n: u64) -> Scenario {
    let mut rng = Rng::derive(seed, 900_000 + n);
    let f = flags(&mut rng);
    let mut others = pool.valid_small();
    // texts that FAIL may come first in the same process too (a failed file must leave no state behind)
    let errs = pool.errors();
    if rng.chance(1, 2) {
        others.extend(errs.iter().copied());
    }
    let cp = clock_pid(&mut rng);
    let k = rng.range(1, 3) as usize;
    let mut ops = vec![Op::Write { path: "t/target.lalrpop".into(), content: Content::from_bytes(&t.bytes) }];
    let mut calls = vec![CallSpec { entry: "process_file".into(), path: Some("t/target.lalrpop".into()), ..f.clone() }];
    for i in 0..k {
        let o = rng.pick(&others);
        let p = format!("o{i}/{}.lalrpop", o.name);
        ops.push(Op::Write { path: p.clone(), content: Content::from_bytes(&o.bytes) });
        calls.push(CallSpec { entry: "process_file".into(), path: Some(p), ..f.clone() });
    }
    rng.shuffle(&mut calls);
    // the target once more at the end, regenerated after everything else ran in this process
    calls.push(CallSpec { entry: "process_file".into(), path: Some("t/target.lalrpop".into()), force: true, ..f });
    let use_cli = rng.chance(1, 5) && !calls.iter().any(|c| c.path.as_deref().map(|p| p.contains("/e_")).unwrap_or(false));
    let kind = if use_cli {
        let mut args: Vec<String> = vec!["-f".into()];
        if rng.chance(1, 2) {
            args.push("-l".into());
            args.push(rng.pick(&["quiet", "info", "verbose", "debug"]).to_string());
        }
        if calls[0].comments {
            args.push("--comments".into());
        }
        if !calls[0].whitespace {
            args.push("--no-whitespace".into());
        }
        if calls[0].report {
            args.push("--report".into());
        }
        args.extend(calls.iter().filter_map(|c| c.path.clone()));
        NodeKind::Cli { args }
    } else {
        NodeKind::Api { calls }
    };
    let node = NodeSpec { kind, cwd: String::new(), env: noise(&mut rng), hashseed: rng.below(64), faults: vec![], leak: 0, canary: !use_cli, clock: cp.0, pid: cp.1, reuse_config: false };
    ops.push(Op::Build { node, tag: "check".into() });
    Scenario { property: "C20".into(), seed, label: format!("order:{}", t.name), ops }
}

pub fn run(engine: &Engine, tier: &str, seed: u64) -> i32 {
    let t0 = Instant::now();
    let thorough = tier == "thorough";
    let pool = Pool::load();
    let nseeds: u64 = if thorough { 64 } else { 8 };
    let nbatch: u64 = if thorough { 5000 } else { 260 };
    let norder: u64 = if thorough { 3000 } else { 200 };
    // very large grammars take part in the seed sweep only in the thorough tier
    let big = |t: &PoolText| t.bytes.len() > 5000;
    let mut scs: Vec<Scenario> = Vec::new();
    let mut n = 0u64;
    for t in &pool.all {
        let hs: Vec<u64> = if big(t) && !thorough { vec![1, 2] } else { (1..=nseeds).collect() };
        for h in hs {
            n += 1;
            scs.push(seed_scenario(t, seed, h, n));
        }
    }
    let seed_runs = scs.len();
    let mut rng = Rng::derive(seed, 42);
    let targets: Vec<&PoolText> = pool.all.iter().filter(|t| thorough || !big(t) || t.class != Class::Valid).collect();
    // every target takes part in batches and in-process orders (systematically first, then at random)
    for i in 0..nbatch {
        let t = if (i as usize) < 2 * targets.len() { targets[i as usize % targets.len()] } else { *rng.pick(&targets) };
        scs.push(batch_scenario(&pool, t, seed, i));
    }
    for i in 0..norder {
        let t = if (i as usize) < 3 * targets.len() { targets[i as usize % targets.len()] } else { *rng.pick(&targets) };
        scs.push(order_scenario(&pool, t, seed, i));
    }
    let outs: Vec<Outcome> = engine.par_map(&scs, |ctx, sc| run_scenario(ctx, sc));
    let mut rep = Reporter::new("C20");
    let mut canaries: BTreeSet<String> = BTreeSet::new();
    let mut shapes: BTreeSet<String> = BTreeSet::new();
    let mut probes = crate::check::Probes::default();
    for (sc, out) in scs.iter().zip(outs.iter()) {
        probes.add(&out.probes);
        for c in &out.canaries {
            canaries.insert(c.clone());
        }
        shapes.insert(format!("{}|{}", sc.label.split(":h").next().unwrap_or(""), out.canaries.first().cloned().unwrap_or_default()));
        if !out.violations.is_empty() {
            rep.add(sc, &out.violations);
        }
    }
    let (unlisted, known) = rep.finish(engine);
    let wall = t0.elapsed().as_secs_f64();
    let mut extra = BTreeMap::new();
    extra.insert("pool_grammars".to_string(), json!(pool.all.len()));
    extra.insert("seed_runs".to_string(), json!(seed_runs));
    extra.insert("batch_runs".to_string(), json!(nbatch));
    extra.insert("order_runs".to_string(), json!(norder));
    extra.insert("hash_seeds_per_grammar".to_string(), json!(nseeds));
    extra.insert("distinct_hash_worlds_by_canary".to_string(), json!(canaries.len()));
    extra.insert("files_checked".to_string(), json!(probes.files_planned));
    extra.insert("fault_kinds_fired".to_string(), json!({"hash_seed_changed": seed_runs as u64 + nbatch + norder, "address_shift": "in a third of the runs", "environment_noise": "0-3 random and 0-13 well-known variables per run", "clock_moved": "two thirds of the runs", "pid_changed": "two thirds of the runs"}));
    extra.insert("runs_per_hour".to_string(), json!((scs.len() as f64 / wall * 3600.0) as u64));
    extra.insert("simulated_time".to_string(), json!("none"));
    extra.insert("real_components".to_string(), json!(["lalrpop library and CLI (working tree), all of its dependencies' hash maps"]));
    extra.insert("stubbed_components".to_string(), json!(["getrandom -> SplitMix64(hash seed) via simfs.so", "clock_gettime(REALTIME)/gettimeofday/time and getpid via simfs.so", "ASLR disabled (personality), optional seeded heap shift"]));
    extra.insert("known_findings_reported".to_string(), json!(known));
    if canaries.len() < 4 {
        simcore::harness_error("C20: the hash seed seam does not change HashSet iteration order (canary orders < 4)");
    }
    Evidence {
        property_id: "C20".into(),
        tier: tier.into(),
        seed,
        level: "exploration".into(),
        evaluations: scs.len() as u64,
        distinct_nontrivial: shapes.len() as u64,
        rule: "for every pool grammar (valid, invalid and type-inference-cycle texts): (a) alone under each hash seed 1..H (getrandom served by the shim, so every HashMap in the process is re-keyed), (b) in process_dir batches of 2-5 files with the grammar sorting first/middle/last, shuffled creation order, random hash seed, (c) process_file calls in a seeded order inside one process with the grammar regenerated at the end (API and CLI), under random names/directories (shallow, deep, non-ASCII), heap shift, environment noise (random and well-known variables such as USER, HOME, TZ, SOURCE_DATE_EPOCH, CARGO_*), a simulated wall clock between 1970 and 2100 and a simulated pid (clock_gettime/gettimeofday/time/getpid served by the shim), with failing grammars processed earlier in the same process; every output (and report) must equal the forced build of that text alone at hash seed 0, and each call must succeed iff that build does. distinct_nontrivial = distinct (run family:grammar, HashSet iteration order of the canary) pairs".into(),
        samples: scs.iter().step_by((scs.len() / 3).max(1)).take(3).map(|s| json!({"label": s.label, "ops": s.ops.len(), "build": s.ops.last()})).collect(),
        exhaustive: false,
        assumptions: vec!["nondeterminism sources owned: hash keys, batch composition and order, names, creation order, address layout, environment; a source outside these would show up in the determinism self-test".into()],
        wall_s: wall,
        violations: unlisted,
        extra,
    }
    .write();
    println!("C20 {tier}: {} runs ({} seed, {} batch, {} order), {} canary orders, {} unlisted violations, {} known findings, {:.1}s", scs.len(), seed_runs, nbatch, norder, canaries.len(), unlisted, known, wall);
    if unlisted > 0 {
        simcore::EXIT_VIOLATION
    } else {
        simcore::EXIT_OK
    }
}
