//! Running one build node (buildnode or the real CLI) under the shim.

use crate::world::{lex_norm, WorldDir};
use serde::{Deserialize, Serialize};
use std::os::unix::process::ExitStatusExt;
use std::path::PathBuf;
use std::process::{Command, Stdio};

/// One `Configuration` call (mirrors buildnode's `Call`).  Strings may contain
/// the placeholder `{ROOT}` which is replaced by the absolute world root.
#[derive(Clone, Debug, Default, Serialize, Deserialize, PartialEq)]
pub struct CallSpec {
    pub entry: String,
    #[serde(default, skip_serializing_if = "Option::is_none")]
    pub path: Option<String>,
    #[serde(default, skip_serializing_if = "Option::is_none")]
    pub in_dir: Option<String>,
    #[serde(default, skip_serializing_if = "Option::is_none")]
    pub out_dir: Option<String>,
    #[serde(default, skip_serializing_if = "is_false")]
    pub cargo_conventions: bool,
    #[serde(default, skip_serializing_if = "is_false")]
    pub in_source_tree: bool,
    #[serde(default, skip_serializing_if = "is_false")]
    pub force: bool,
    #[serde(default, skip_serializing_if = "is_false")]
    pub report: bool,
    #[serde(default, skip_serializing_if = "is_false")]
    pub comments: bool,
    #[serde(default = "yes")]
    pub whitespace: bool,
    #[serde(default, skip_serializing_if = "is_false")]
    pub rerun: bool,
    #[serde(default, skip_serializing_if = "Option::is_none")]
    pub features: Option<Vec<String>>,
    /// entry == "write_file": the node itself overwrites `path` with these bytes between two calls
    #[serde(default, skip_serializing_if = "Option::is_none")]
    pub write_hex: Option<String>,
}
fn is_false(b: &bool) -> bool {
    !*b
}
fn yes() -> bool {
    true
}

#[derive(Clone, Debug, Serialize, Deserialize, PartialEq)]
#[serde(rename_all = "lowercase")]
pub enum NodeKind {
    Api { calls: Vec<CallSpec> },
    Cli { args: Vec<String> },
}

#[derive(Clone, Debug, Serialize, Deserialize, PartialEq)]
pub struct NodeSpec {
    pub kind: NodeKind,
    /// working directory, relative to the world root ("" = the root)
    #[serde(default)]
    pub cwd: String,
    /// extra environment (values may use {ROOT})
    #[serde(default)]
    pub env: Vec<(String, String)>,
    #[serde(default)]
    pub hashseed: u64,
    /// shim fault items, e.g. "3:kill", "5:killw:10", "r2:eintr"
    #[serde(default)]
    pub faults: Vec<String>,
    #[serde(default)]
    pub leak: u32,
    #[serde(default)]
    pub canary: bool,
    /// simulated wall-clock start (epoch seconds) and process id, when the scenario owns them
    #[serde(default, skip_serializing_if = "Option::is_none")]
    pub clock: Option<i64>,
    #[serde(default, skip_serializing_if = "Option::is_none")]
    pub pid: Option<i64>,
    /// one `Configuration` value per distinct setting, reused by all calls of this node
    #[serde(default, skip_serializing_if = "is_false")]
    pub reuse_config: bool,
}

#[derive(Clone, Debug)]
pub struct TraceLine {
    pub cls: char,
    pub seq: i64,
    pub op: String,
    /// path as the program gave it
    pub path: String,
    /// world-relative, lexically normalised; None when outside or not a path
    pub rel: Option<String>,
    pub arg: i64,
    pub res: i64,
    pub note: String,
}

#[derive(Clone, Debug, PartialEq)]
pub struct CallResult {
    pub status: String,
    pub msg: String,
}

#[derive(Clone, Debug)]
pub struct NodeRun {
    pub exit_code: Option<i32>,
    pub signal: Option<i32>,
    /// died inside the shim (exit 137) or by a signal
    pub killed: bool,
    pub results: Vec<CallResult>,
    pub done: bool,
    pub stdout: String,
    pub stderr: String,
    pub trace: Vec<TraceLine>,
    pub trace_ended: bool,
    pub canary: Option<String>,
    pub fired: u64,
    pub unfired: u64,
}

impl NodeRun {
    /// Ok(true)=all calls ok, Ok(false)=some call returned Err; Err = panic/crash text
    pub fn verdict(&self) -> Result<bool, String> {
        if self.killed {
            return Err("killed".into());
        }
        if let Some(r) = self.results.iter().find(|r| r.status == "panic") {
            return Err(format!("panic: {}", r.msg));
        }
        Ok(self.results.iter().all(|r| r.status == "ok"))
    }
    pub fn mutating(&self) -> impl Iterator<Item = &TraceLine> {
        self.trace.iter().filter(|t| t.cls == 'M')
    }
}

pub struct Bins {
    pub shim: PathBuf,
    pub buildnode: PathBuf,
    pub cli: PathBuf,
}

impl Bins {
    pub fn locate() -> Bins {
        let root = simcore::verif_root();
        let b = Bins {
            shim: root.join("sim/shim/simfs.so"),
            buildnode: root.join("sim/target/release/buildnode"),
            cli: root.join("sim/target/release/lalrpop_cli"),
        };
        for p in [&b.shim, &b.buildnode, &b.cli] {
            if !p.exists() {
                simcore::harness_error(&format!("missing {}", p.display()));
            }
        }
        b
    }
}

fn unescape(s: &str) -> String {
    if s == "-" {
        return String::new();
    }
    if s == "\\e" {
        return String::new();
    }
    let b = s.as_bytes();
    let mut out = Vec::with_capacity(b.len());
    let mut i = 0;
    while i < b.len() {
        if b[i] == b'\\' && i + 3 < b.len() && b[i + 1] == b'x' {
            if let Ok(v) = u8::from_str_radix(&s[i + 2..i + 4], 16) {
                out.push(v);
                i += 4;
                continue;
            }
        }
        out.push(b[i]);
        i += 1;
    }
    String::from_utf8_lossy(&out).into_owned()
}

pub fn rel_of(root: &str, cwd_rel: &str, path: &str) -> Option<String> {
    if path.is_empty() {
        return None;
    }
    if let Some(rest) = path.strip_prefix(root) {
        if rest.is_empty() {
            return Some(String::new());
        }
        if let Some(r) = rest.strip_prefix('/') {
            return lex_norm(r);
        }
        return None;
    }
    if path.starts_with('/') {
        return None;
    }
    if cwd_rel.is_empty() {
        lex_norm(path)
    } else {
        lex_norm(&format!("{cwd_rel}/{path}"))
    }
}

fn parse_trace(text: &str, root: &str, cwd_rel: &str) -> (Vec<TraceLine>, bool, u64, u64) {
    let mut v = Vec::new();
    let mut ended = false;
    let mut fired = 0;
    let mut unfired = 0;
    for line in text.lines() {
        let f: Vec<&str> = line.split(' ').collect();
        if f.len() < 6 {
            continue;
        }
        let cls = f[0].chars().next().unwrap_or('?');
        let path = unescape(f[3]);
        let note = if f.len() > 6 { f[6..].join(" ") } else { String::new() };
        let tl = TraceLine {
            cls,
            seq: f[1].parse().unwrap_or(-1),
            op: f[2].to_string(),
            rel: rel_of(root, cwd_rel, &path),
            path,
            arg: f[4].parse().unwrap_or(0),
            res: f[5].parse().unwrap_or(0),
            note,
        };
        if cls == 'E' {
            ended = true;
        }
        if cls == 'U' {
            unfired += 1;
        }
        if !tl.note.is_empty() && (cls == 'M' || cls == 'R') && tl.note != "STICKY" {
            fired += 1;
        }
        v.push(tl);
    }
    (v, ended, fired, unfired)
}

/// `/tmp/verif-sim-<simulator pid>/<world name>` (removed by `Engine::cleanup`)
pub fn private_tmpdir(w: &WorldDir) -> PathBuf {
    let name = w.base.file_name().map(|s| s.to_string_lossy().into_owned()).unwrap_or_else(|| "w".into());
    let d = tmp_base().join(name);
    let _ = std::fs::create_dir_all(&d);
    d
}

pub fn tmp_base() -> PathBuf {
    std::env::temp_dir().join(format!("verif-sim-{}", std::process::id()))
}

pub fn run_node(w: &WorldDir, bins: &Bins, spec: &NodeSpec) -> NodeRun {
    let root = w.root();
    let root_s = root.to_string_lossy().into_owned();
    let sub = |s: &str| s.replace("{ROOT}", &root_s);
    let _ = std::fs::remove_file(w.trace());
    let _ = std::fs::remove_file(w.res());
    let cwd = if spec.cwd.is_empty() { root.clone() } else { root.join(&spec.cwd) };
    let _ = std::fs::create_dir_all(&cwd); // a minimised op list may have lost the mkdir

    let mut plan = format!("root={};trace={};hashseed={}", root_s, w.trace().display(), spec.hashseed);
    // the simulator always owns the wall clock and the pid: a node never sees the real ones
    // (defaults: 2020-09-13 and pid 4242; C20 scenarios move both)
    plan.push_str(&format!(";clock={}", spec.clock.unwrap_or(1_600_000_000)));
    plan.push_str(&format!(";pid={}", spec.pid.unwrap_or(4242)));
    for f in &spec.faults {
        plan.push_str(";at=");
        plan.push_str(f);
    }

    let mut cmd = match &spec.kind {
        NodeKind::Api { calls } => {
            let calls: Vec<CallSpec> = calls
                .iter()
                .map(|c| {
                    let mut c = c.clone();
                    c.path = c.path.map(|p| sub(&p));
                    c.in_dir = c.in_dir.map(|p| sub(&p));
                    c.out_dir = c.out_dir.map(|p| sub(&p));
                    c
                })
                .collect();
            let job = serde_json::json!({
                "result": w.res().to_string_lossy(),
                "canary": spec.canary,
                "reuse_config": spec.reuse_config,
                "leak": spec.leak,
                "calls": calls,
            });
            std::fs::write(w.job(), serde_json::to_vec(&job).unwrap()).expect("write job");
            let mut c = Command::new(&bins.buildnode);
            c.arg(w.job());
            c
        }
        NodeKind::Cli { args } => {
            let mut c = Command::new(&bins.cli);
            for a in args {
                c.arg(sub(a));
            }
            c
        }
    };
    cmd.env_clear();
    cmd.env("LD_PRELOAD", &bins.shim);
    cmd.env("VERIF_SIM_PLAN", &plan);
    cmd.env("RUST_BACKTRACE", "0");
    // a private temporary directory per world, on another file system than the world itself when
    // possible (as /tmp usually is in real life): nodes of different workers never meet there
    let tmpdir = private_tmpdir(w);
    cmd.env("TMPDIR", &tmpdir);
    for (k, v) in &spec.env {
        cmd.env(k, sub(v));
    }
    cmd.current_dir(&cwd);
    cmd.stdin(Stdio::null());
    // ADDR_NO_RANDOMIZE is set once on the simulator process (main.rs) and inherited by
    // every child: no pre_exec hook, so std can use the cheap posix_spawn path.
    // A node normally finishes in milliseconds.  A wall-clock cap (far above 60x the normal time)
    // turns a hang into a report instead of a stuck check: the child is killed and the run counts
    // as "did not return".
    cmd.stdout(Stdio::piped()).stderr(Stdio::piped());
    let child = match cmd.spawn() {
        Ok(c) => c,
        Err(e) => simcore::harness_error(&format!("cannot spawn node in {}: {e}", cwd.display())),
    };
    let pid = child.id();
    let cap = std::env::var("VERIF_NODE_CAP_S").ok().and_then(|s| s.parse::<u64>().ok()).unwrap_or(180);
    let hung = std::sync::Arc::new(std::sync::atomic::AtomicBool::new(false));
    let hung2 = hung.clone();
    let (tx, rx) = std::sync::mpsc::channel::<()>();
    let watchdog = std::thread::spawn(move || {
        if let Err(std::sync::mpsc::RecvTimeoutError::Timeout) = rx.recv_timeout(std::time::Duration::from_secs(cap)) {
            hung2.store(true, std::sync::atomic::Ordering::SeqCst);
            unsafe {
                libc::kill(pid as i32, libc::SIGKILL);
            }
        }
    });
    let out = match child.wait_with_output() {
        Ok(o) => o,
        Err(e) => simcore::harness_error(&format!("cannot wait for node: {e}")),
    };
    let _ = tx.send(());
    let _ = watchdog.join();
    let timed_out = hung.load(std::sync::atomic::Ordering::SeqCst);
    let exit_code = out.status.code();
    let signal = out.status.signal();
    let trace_text = std::fs::read_to_string(w.trace()).unwrap_or_default();
    let (trace, trace_ended, fired, unfired) = parse_trace(&trace_text, &root_s, &spec.cwd);
    let mut results = Vec::new();
    let mut done = false;
    let mut canary = None;
    if let NodeKind::Api { .. } = &spec.kind {
        let res_text = std::fs::read_to_string(w.res()).unwrap_or_default();
        for line in res_text.lines() {
            if let Ok(v) = serde_json::from_str::<serde_json::Value>(line) {
                if v.get("done").is_some() {
                    done = true;
                } else if let Some(c) = v.get("canary") {
                    canary = c.as_str().map(|s| s.to_string());
                } else if let Some(st) = v.get("status") {
                    results.push(CallResult {
                        status: st.as_str().unwrap_or("").to_string(),
                        msg: v.get("msg").and_then(|m| m.as_str()).unwrap_or("").to_string(),
                    });
                }
            }
        }
    } else {
        // CLI: one pseudo-result from the exit status
        match exit_code {
            Some(0) => results.push(CallResult { status: "ok".into(), msg: String::new() }),
            Some(101) => results.push(CallResult { status: "panic".into(), msg: String::from_utf8_lossy(&out.stderr).into_owned() }),
            Some(137) | None => {}
            Some(_) => results.push(CallResult { status: "err".into(), msg: String::from_utf8_lossy(&out.stderr).into_owned() }),
        }
        done = exit_code.is_some() && exit_code != Some(137);
    }
    if timed_out {
        results.clear();
        results.push(CallResult { status: "panic".into(), msg: format!("node did not finish within {cap} s (killed by the watchdog) @ hang") });
    }
    let killed_raw = exit_code == Some(137) || signal.is_some();
    let killed = killed_raw && !timed_out;
    if exit_code == Some(86) {
        simcore::harness_error(&format!("shim rejected plan `{plan}`: {}", String::from_utf8_lossy(&out.stderr)));
    }

    if !killed_raw && !trace_ended && exit_code != Some(101) {
        // the shim's destructor must have run on a normal exit
        if exit_code != Some(101) {
            simcore::harness_error(&format!(
                "node exited {:?} without trace end marker; stderr: {}",
                exit_code,
                String::from_utf8_lossy(&out.stderr)
            ));
        }
    }
    NodeRun {
        exit_code,
        signal,
        killed,
        results,
        done,
        stdout: String::from_utf8_lossy(&out.stdout).into_owned(),
        stderr: String::from_utf8_lossy(&out.stderr).into_owned(),
        trace,
        trace_ended,
        canary,
        fired,
        unfired,
    }
}
