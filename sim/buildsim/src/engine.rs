//! Worker pool, violation reporting, minimisation, replay files.

use crate::check::Ctx;
use crate::node::{Bins, NodeKind};
use crate::ops::Op;
use crate::oracle::Oracle;
use crate::scenario::{run_scenario, Scenario, Violation};
use crate::world::WorldDir;
use serde_json::json;
use simcore::{Content, Findings};
use std::collections::BTreeMap;
use std::path::PathBuf;
use std::sync::atomic::{AtomicUsize, Ordering};
use std::sync::Mutex;

pub struct Engine {
    pub bins: Bins,
    pub oracle: Oracle,
    pub findings: Findings,
    pub base: PathBuf,
    pub workers: usize,
}

impl Engine {
    pub fn new() -> Engine {
        let shm = PathBuf::from("/dev/shm");
        let parent = if shm.is_dir() { shm } else { simcore::verif_root().join(".scratch") };
        let base = parent.join(format!("verif-{}", std::process::id()));
        std::fs::create_dir_all(&base).expect("create sim base");
        let workers = std::env::var("VERIF_WORKERS").ok().and_then(|s| s.parse().ok()).unwrap_or_else(|| std::thread::available_parallelism().map(|n| n.get()).unwrap_or(4).min(16));
        Engine { bins: Bins::locate(), oracle: Oracle::new(), findings: Findings::load(), base, workers }
    }

    pub fn cleanup(&self) {
        crate::world::remove_tree(&crate::node::tmp_base());
        crate::world::remove_tree(&self.base);
    }

    /// Run `f` over all jobs on the worker pool; results in job order.
    pub fn par_map<J: Sync, R: Send>(&self, jobs: &[J], f: impl Fn(&Ctx, &J) -> R + Sync) -> Vec<R> {
        let next = AtomicUsize::new(0);
        let results: Mutex<Vec<Option<R>>> = Mutex::new((0..jobs.len()).map(|_| None).collect());
        let n = self.workers.min(jobs.len().max(1));
        std::thread::scope(|s| {
            for k in 0..n {
                let next = &next;
                let results = &results;
                let f = &f;
                s.spawn(move || {
                    let world = WorldDir::new(self.base.join(format!("w{k}")));
                    let scratch = WorldDir::new(self.base.join(format!("s{k}")));
                    let ctx = Ctx { bins: &self.bins, oracle: &self.oracle, world: &world, scratch: &scratch };
                    loop {
                        let i = next.fetch_add(1, Ordering::SeqCst);
                        if i >= jobs.len() {
                            break;
                        }
                        let r = f(&ctx, &jobs[i]);
                        results.lock().unwrap()[i] = Some(r);
                    }
                });
            }
        });
        results.into_inner().unwrap().into_iter().map(|r| r.expect("job result")).collect()
    }

    pub fn with_ctx<R>(&self, name: &str, f: impl FnOnce(&Ctx) -> R) -> R {
        let world = WorldDir::new(self.base.join(format!("{name}-w")));
        let scratch = WorldDir::new(self.base.join(format!("{name}-s")));
        let ctx = Ctx { bins: &self.bins, oracle: &self.oracle, world: &world, scratch: &scratch };
        f(&ctx)
    }
}

// ------------------------------------------------------------ minimiser

/// cause keys are compared modulo the `varies=` facet (C20): it describes the *scenario*
/// (which nondeterminism source is still present), and shrinking is meant to change it
fn norm_key(k: &str) -> String {
    k.split('|').filter(|p| !p.starts_with("varies=")).collect::<Vec<_>>().join("|")
}

fn has_key(ctx: &Ctx, sc: &Scenario, key: &str) -> Option<Violation> {
    let want = norm_key(key);
    run_scenario(ctx, sc).violations.into_iter().find(|v| norm_key(&v.key) == want)
}

const TINY: &str = "grammar;\npub T: () = \"a\" \"b\" => ();\n";

/// Shrink a failing scenario while the same cause key persists.
pub fn minimize(ctx: &Ctx, sc: &Scenario, key: &str) -> Scenario {
    let mut cur = sc.clone();
    let mut budget = 400usize;
    loop {
        let mut changed = false;
        // 1. drop ops (never the last build)
        let last_build = cur.ops.iter().rposition(|o| o.is_build());
        let mut i = cur.ops.len();
        while i > 0 && budget > 0 {
            i -= 1;
            if Some(i) == last_build {
                continue;
            }
            let mut cand = cur.clone();
            cand.ops.remove(i);
            budget -= 1;
            if has_key(ctx, &cand, key).is_some() {
                cur = cand;
                changed = true;
            }
        }
        // 2. simplify contents: a valid text becomes the tiny grammar (+ same suffix if it was an edit)
        for i in 0..cur.ops.len() {
            if budget == 0 {
                break;
            }
            if let Op::Write { path, content } = &cur.ops[i] {
                if !path.ends_with(".lalrpop") {
                    continue;
                }
                let b = content.bytes();
                if b.len() <= TINY.len() + 40 {
                    continue;
                }
                for cand_text in [TINY.to_string(), format!("{TINY}// edited\n")] {
                    let mut cand = cur.clone();
                    cand.ops[i] = Op::Write { path: path.clone(), content: Content::Text(cand_text) };
                    budget -= 1;
                    if has_key(ctx, &cand, key).is_some() {
                        cur = cand;
                        changed = true;
                        break;
                    }
                }
            }
        }
        // 3. simplify builds: fewer faults, smaller offsets, default flags, no env noise
        for i in 0..cur.ops.len() {
            if budget == 0 {
                break;
            }
            if let Op::Build { node, tag } = &cur.ops[i] {
                let mut tries: Vec<crate::node::NodeSpec> = Vec::new();
                for fi in 0..node.faults.len() {
                    if node.faults.len() > 1 {
                        let mut n = node.clone();
                        n.faults.remove(fi);
                        tries.push(n);
                    }
                    let parts: Vec<&str> = node.faults[fi].split(':').collect();
                    if parts.len() == 3 && parts[1] != "fail" {
                        if let Ok(k) = parts[2].parse::<u64>() {
                            for nk in [0u64, 1, k / 2] {
                                if nk < k {
                                    let mut n = node.clone();
                                    n.faults[fi] = format!("{}:{}:{}", parts[0], parts[1], nk);
                                    tries.push(n);
                                }
                            }
                        }
                    }
                }
                if node.env.iter().any(|(k, _)| k.starts_with("NOISE")) {
                    let mut n = node.clone();
                    n.env.retain(|(k, _)| !k.starts_with("NOISE"));
                    tries.push(n);
                }
                if node.hashseed != 0 {
                    let mut n = node.clone();
                    n.hashseed = 0;
                    tries.push(n);
                }
                if node.leak > 0 {
                    let mut n = node.clone();
                    n.leak = 0;
                    tries.push(n);
                }
                if node.clock.is_some() {
                    let mut n = node.clone();
                    n.clock = None;
                    tries.push(n);
                }
                if node.pid.is_some() {
                    let mut n = node.clone();
                    n.pid = None;
                    tries.push(n);
                }
                // environment variables that are not part of the configuration, one at a time
                for (k, _) in node.env.iter().filter(|(k, _)| k != "OUT_DIR" && !k.starts_with("CARGO_FEATURE_") && !k.starts_with("NOISE")) {
                    let mut n = node.clone();
                    n.env.retain(|(x, _)| x != k);
                    tries.push(n);
                }
                if let NodeKind::Api { calls } = &node.kind {
                    for ci in 0..calls.len() {
                        let c = &calls[ci];
                        if c.comments || !c.whitespace || c.rerun || c.report {
                            for which in 0..4 {
                                let mut n = node.clone();
                                if let NodeKind::Api { calls } = &mut n.kind {
                                    match which {
                                        0 => calls[ci].comments = false,
                                        1 => calls[ci].whitespace = true,
                                        2 => calls[ci].rerun = false,
                                        _ => calls[ci].report = false,
                                    }
                                }
                                if n != *node {
                                    tries.push(n);
                                }
                            }
                        }
                    }
                }
                for n in tries {
                    if budget == 0 {
                        break;
                    }
                    let mut cand = cur.clone();
                    cand.ops[i] = Op::Build { node: n, tag: tag.clone() };
                    budget -= 1;
                    if has_key(ctx, &cand, key).is_some() {
                        cur = cand;
                        changed = true;
                        break;
                    }
                }
            }
        }
        if !changed || budget == 0 {
            break;
        }
    }
    cur
}

// ------------------------------------------------------------ reporting

pub struct Reporter {
    pub property: String,
    /// first scenario seen per cause key
    pub by_key: BTreeMap<String, (Scenario, Violation, u64)>,
    pub total: u64,
}

impl Reporter {
    pub fn new(property: &str) -> Reporter {
        // replay files of earlier runs of this property are stale now
        if let Ok(rd) = std::fs::read_dir(simcore::replay_dir()) {
            for f in rd.flatten() {
                if f.file_name().to_string_lossy().starts_with(&format!("{property}-")) {
                    let _ = std::fs::remove_file(f.path());
                }
            }
        }
        Reporter { property: property.to_string(), by_key: BTreeMap::new(), total: 0 }
    }
    pub fn add(&mut self, sc: &Scenario, vs: &[Violation]) {
        for v in vs {
            self.total += 1;
            match self.by_key.get_mut(&v.key) {
                Some(e) => {
                    e.2 += 1;
                    // prefer the shorter scenario as the representative
                    if sc.ops.len() < e.0.ops.len() {
                        e.0 = sc.clone();
                        e.1 = v.clone();
                    }
                }
                None => {
                    self.by_key.insert(v.key.clone(), (sc.clone(), v.clone(), 1));
                }
            }
        }
    }

    /// Minimise, write replay files, print the contract lines.  Returns
    /// (unlisted violations, known findings).
    pub fn finish(&self, engine: &Engine) -> (u64, u64) {
        let mut unlisted = 0;
        let mut known = 0;
        for (key, (sc, v, count)) in &self.by_key {
            let (min, reproduced) = engine.with_ctx("min", |ctx| {
                if has_key(ctx, sc, key).is_none() {
                    return (sc.clone(), false);
                }
                let m = minimize(ctx, sc, key);
                let ok = has_key(ctx, &m, key).is_some();
                (m, ok)
            });
            if !reproduced {
                simcore::harness_error(&format!("violation `{key}` did not reproduce on re-execution (nondeterminism in the harness?)\n  detail: {}", v.detail));
            }
            let final_v = engine.with_ctx("min", |ctx| has_key(ctx, &min, key));
            let detail = final_v.as_ref().map(|v| v.detail.clone()).unwrap_or_default();
            // the minimised scenario may have lost a nondeterminism source: report its own key
            let key = &final_v.as_ref().map(|v| v.key.clone()).unwrap_or_else(|| key.clone());
            let dig = simcore::digest(serde_json::to_string(&min).unwrap().as_bytes());
            let path = simcore::replay_dir().join(format!("{}-{}-{:08x}.json", self.property, sc.seed, dig as u32));
            let doc = json!({
                "property": self.property,
                "invariant": v.invariant,
                "key": key,
                "seed": sc.seed,
                "occurrences_in_this_run": count,
                "observed": detail,
                "scenario": min,
                "original_ops": sc.ops.len(),
                "replay_cmd": format!("./check {} replay {}", self.property, path.display()),
            });
            simcore::write_json(&path, &doc);
            if let Some(f) = engine.findings.known(&self.property, key) {
                known += 1;
                println!("KNOWN-FINDING: property={} {} [key: {}] replay={}", self.property, f.what, key, path.display());
            } else {
                unlisted += 1;
                println!("VIOLATION property={} replay={}", self.property, path.display());
                println!("  invariant={} key={}", v.invariant, key);
                println!("  {}", detail);
            }
        }
        (unlisted, known)
    }
}

pub fn replay_file(engine: &Engine, path: &str) -> i32 {
    let bytes = std::fs::read(path).unwrap_or_else(|e| simcore::harness_error(&format!("cannot read {path}: {e}")));
    let doc: serde_json::Value = serde_json::from_slice(&bytes).unwrap_or_else(|e| simcore::harness_error(&format!("bad replay file: {e}")));
    let sc: Scenario = serde_json::from_value(doc["scenario"].clone()).unwrap_or_else(|e| simcore::harness_error(&format!("bad scenario: {e}")));
    let key = norm_key(doc["key"].as_str().unwrap_or(""));
    let out = engine.with_ctx("replay", |ctx| run_scenario(ctx, &sc));
    for l in &out.log {
        if std::env::var("VERIF_VERBOSE").is_ok() {
            println!("  {l}");
        }
    }
    println!("replayed {} ops, {} builds, log digest {:016x}", sc.ops.len(), out.builds, out.log_digest);
    let mut hit = false;
    for v in &out.violations {
        println!("  violation invariant={} key={}\n    {}", v.invariant, v.key, v.detail);
        if norm_key(&v.key) == key {
            hit = true;
        }
    }
    if hit {
        println!("VIOLATION property={} replay={}", sc.property, path);
        simcore::EXIT_VIOLATION
    } else {
        println!("not reproduced: no violation with key `{key}`");
        simcore::EXIT_OK
    }
}
