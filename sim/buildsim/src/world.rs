//! The simulated world: a private directory on tmpfs, plus in-memory
//! snapshots so that thousands of fault points can start from one pre-state.

use simcore::Fnv;
use std::collections::BTreeMap;
use std::fs;
use std::os::unix::fs::MetadataExt;
use std::path::{Path, PathBuf};

pub struct WorldDir {
    pub base: PathBuf,
}

impl WorldDir {
    pub fn new(base: PathBuf) -> WorldDir {
        fs::create_dir_all(&base).expect("create world base");
        let w = WorldDir { base };
        w.reset();
        w
    }
    pub fn root(&self) -> PathBuf {
        self.base.join("w")
    }
    pub fn trace(&self) -> PathBuf {
        self.base.join("t")
    }
    pub fn job(&self) -> PathBuf {
        self.base.join("job.json")
    }
    pub fn res(&self) -> PathBuf {
        self.base.join("res")
    }
    /// private temporary directory of this world's nodes (see node::private_tmpdir)
    pub fn tmpdir(&self) -> PathBuf {
        let name = self.base.file_name().map(|s| s.to_string_lossy().into_owned()).unwrap_or_else(|| "w".into());
        std::env::temp_dir().join(format!("verif-sim-{}", std::process::id())).join(name)
    }
    pub fn reset(&self) {
        // whatever a killed node left in its temporary directory must not leak into the next scenario
        let t = self.tmpdir();
        if t.exists() {
            remove_tree(&t);
        }
        let r = self.root();
        if r.exists() {
            remove_tree(&r);
        }
        fs::create_dir_all(&r).expect("create world root");
    }
    pub fn abs(&self, rel: &str) -> PathBuf {
        if rel.is_empty() {
            self.root()
        } else {
            self.root().join(rel)
        }
    }
}

pub fn remove_tree(p: &Path) {
    // symlink-safe recursive removal
    if let Ok(md) = fs::symlink_metadata(p) {
        if md.is_dir() {
            if let Ok(rd) = fs::read_dir(p) {
                for e in rd.flatten() {
                    remove_tree(&e.path());
                }
            }
            let _ = fs::remove_dir(p);
        } else {
            let _ = fs::remove_file(p);
        }
    }
}

#[derive(Clone, Debug, PartialEq, Eq)]
pub enum Node {
    File { bytes: Vec<u8>, mtime_s: i64, mtime_ns: i64 },
    Dir,
    Link { target: String },
}

pub type Snapshot = BTreeMap<String, Node>;

fn snap_rec(root: &Path, rel: &str, out: &mut Snapshot) {
    let dir = if rel.is_empty() { root.to_path_buf() } else { root.join(rel) };
    let mut names: Vec<String> = match fs::read_dir(&dir) {
        Ok(rd) => rd.flatten().map(|e| e.file_name().to_string_lossy().into_owned()).collect(),
        Err(_) => return,
    };
    names.sort();
    for n in names {
        let r = if rel.is_empty() { n.clone() } else { format!("{rel}/{n}") };
        let p = root.join(&r);
        let md = match fs::symlink_metadata(&p) {
            Ok(m) => m,
            Err(_) => continue,
        };
        if md.file_type().is_symlink() {
            let t = fs::read_link(&p).map(|t| t.to_string_lossy().into_owned()).unwrap_or_default();
            out.insert(r, Node::Link { target: t });
        } else if md.is_dir() {
            out.insert(r.clone(), Node::Dir);
            snap_rec(root, &r, out);
        } else {
            let bytes = fs::read(&p).unwrap_or_default();
            out.insert(r, Node::File { bytes, mtime_s: md.mtime(), mtime_ns: md.mtime_nsec() });
        }
    }
}

/// Snapshot of the whole world (symlinks are recorded, not followed).
pub fn snapshot(root: &Path) -> Snapshot {
    let mut s = Snapshot::new();
    snap_rec(root, "", &mut s);
    s
}

pub fn set_mtime(p: &Path, secs: i64, nsecs: i64) {
    use std::os::unix::ffi::OsStrExt;
    let c = std::ffi::CString::new(p.as_os_str().as_bytes()).unwrap();
    let ts = [
        libc::timespec { tv_sec: secs, tv_nsec: nsecs },
        libc::timespec { tv_sec: secs, tv_nsec: nsecs },
    ];
    unsafe {
        libc::utimensat(libc::AT_FDCWD, c.as_ptr(), ts.as_ptr(), libc::AT_SYMLINK_NOFOLLOW);
    }
}

/// Recreate exactly the snapshot (BTreeMap order puts parents before children).
pub fn restore(root: &Path, snap: &Snapshot) {
    if root.exists() {
        remove_tree(root);
    }
    fs::create_dir_all(root).expect("restore root");
    for (rel, node) in snap {
        let p = root.join(rel);
        match node {
            Node::Dir => {
                fs::create_dir_all(&p).expect("restore dir");
            }
            Node::File { bytes, mtime_s, mtime_ns } => {
                fs::write(&p, bytes).expect("restore file");
                set_mtime(&p, *mtime_s, *mtime_ns);
            }
            Node::Link { target } => {
                std::os::unix::fs::symlink(target, &p).expect("restore link");
            }
        }
    }
}

/// Digest of names, kinds and contents (not times, not inodes).
pub fn digest_tree(root: &Path) -> u64 {
    let s = snapshot(root);
    let mut f = Fnv::new();
    for (rel, node) in &s {
        f.write_str(rel);
        match node {
            Node::Dir => f.write_str("D"),
            Node::Link { target } => {
                f.write_str("L");
                // links into the world are spelled with the world's own root: make that root-independent
                f.write_str(&target.replace(&*root.to_string_lossy(), "{ROOT}"));
            }
            Node::File { bytes, .. } => {
                f.write_str("F");
                f.write_u64(bytes.len() as u64);
                f.write(bytes);
            }
        }
    }
    f.finish()
}

#[derive(Clone, Debug, PartialEq, Eq)]
pub struct FileId {
    pub ino: u64,
    pub mtime_s: i64,
    pub mtime_ns: i64,
    pub len: u64,
}

pub fn file_id(p: &Path) -> Option<FileId> {
    let md = fs::symlink_metadata(p).ok()?;
    Some(FileId { ino: md.ino(), mtime_s: md.mtime(), mtime_ns: md.mtime_nsec(), len: md.len() })
}

/// Lexically normalise a relative path ("a/./b/../c" -> "a/c").  Returns None
/// if it escapes above the start.
pub fn lex_norm(p: &str) -> Option<String> {
    let mut out: Vec<&str> = Vec::new();
    for c in p.split('/') {
        match c {
            "" | "." => {}
            ".." => {
                out.pop()?;
            }
            x => out.push(x),
        }
    }
    Some(out.join("/"))
}
