//! Content oracle: Forced(text, flags) = the bytes a forced, fault-free build
//! of that text writes in a clean scratch world (hash seed 0), memoised.

use crate::node::{run_node, Bins, CallSpec, NodeKind, NodeSpec};
use crate::world::WorldDir;
use std::collections::HashMap;
use std::sync::{Arc, Mutex};

#[derive(Clone, Debug, PartialEq, Eq, Hash, Default)]
pub struct Flags {
    pub report: bool,
    pub comments: bool,
    pub no_whitespace: bool,
    pub features: Option<Vec<String>>,
}

impl Flags {
    pub fn of_call(c: &CallSpec) -> Flags {
        Flags { report: c.report, comments: c.comments, no_whitespace: !c.whitespace, features: c.features.clone() }
    }
}

#[derive(Debug)]
pub enum Forced {
    Built { rs: Vec<u8>, report: Option<Vec<u8>> },
    Fails { msg: String },
}

impl Forced {
    pub fn builds(&self) -> bool {
        matches!(self, Forced::Built { .. })
    }
}

#[derive(Default)]
pub struct Oracle {
    memo: Mutex<HashMap<(u64, u64, Flags), Arc<Forced>>>,
    pub computed: Mutex<u64>,
}

impl Oracle {
    pub fn new() -> Oracle {
        Oracle::default()
    }

    /// `scratch` is a world owned by the calling worker, used only here.
    pub fn forced(&self, scratch: &WorldDir, bins: &Bins, text: &[u8], flags: &Flags) -> Arc<Forced> {
        let mut f2 = simcore::Fnv::new();
        f2.write(text);
        f2.write_str("salt");
        let key = (simcore::digest(text), f2.finish() ^ text.len() as u64, flags.clone());
        if let Some(v) = self.memo.lock().unwrap().get(&key) {
            return v.clone();
        }
        scratch.reset();
        std::fs::write(scratch.root().join("g.lalrpop"), text).expect("oracle write");
        let call = CallSpec {
            entry: "process_file".into(),
            path: Some("g.lalrpop".into()),
            force: true,
            report: flags.report,
            comments: flags.comments,
            whitespace: !flags.no_whitespace,
            features: flags.features.clone(),
            ..Default::default()
        };
        let spec = NodeSpec {
            kind: NodeKind::Api { calls: vec![call] },
            cwd: String::new(),
            env: vec![],
            hashseed: 0,
            faults: vec![],
            leak: 0,
            canary: false,
            clock: None,
            pid: None,
            reuse_config: false,
        };
        let run = run_node(scratch, bins, &spec);
        let res = match run.verdict() {
            Ok(true) => match std::fs::read(scratch.root().join("g.rs")) {
                Ok(rs) => Forced::Built { rs, report: std::fs::read(scratch.root().join("g.report")).ok() },
                Err(e) => simcore::harness_error(&format!("oracle: build ok but no output: {e}")),
            },
            Ok(false) => Forced::Fails { msg: run.results.first().map(|r| r.msg.clone()).unwrap_or_default() },
            Err(e) => Forced::Fails { msg: e },
        };
        *self.computed.lock().unwrap() += 1;
        let a = Arc::new(res);
        self.memo.lock().unwrap().insert(key, a.clone());
        a
    }
}
