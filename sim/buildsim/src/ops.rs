//! Explicit operation lists: what a scenario *is*.  Generators produce them,
//! execution and replay consume only them.

use crate::node::NodeSpec;
use crate::world::{set_mtime, WorldDir};
use serde::{Deserialize, Serialize};
use simcore::Content;
use std::fs;

#[derive(Clone, Debug, Serialize, Deserialize, PartialEq)]
#[serde(rename_all = "snake_case")]
pub enum HeaderEdit {
    /// replace hex digit number `pos` (mod 64) of the hash line by another digit
    FlipHashDigit { pos: usize },
    /// cut the hash line to its first `keep` bytes (line break kept)
    TruncateHashLine { keep: usize },
    /// change the version number text inside the first line
    ChangeVersion { to: String },
    /// swap the first two lines
    SwapLines,
    /// truncate the file to `bytes` bytes (0, inside line 1, end of line 1, inside line 2)
    TruncateFile { bytes: usize },
    /// overwrite the first `n` bytes of line `line` (0 or 1) with these bytes (hex)
    Garbage { line: usize, hex: String },
    /// delete the first line
    DropVersionLine,
    /// upper-case the hex digits of the hash (a different string; the hash is written in lower case)
    UppercaseHash,
    /// append text to the end of the hash line (before the line break): not the hash any more
    AppendToHashLine { text: String },
    /// append text to the end of the version line
    AppendToVersionLine { text: String },
    /// upper-case the words of the version line
    UppercaseVersionLine,
}

#[derive(Clone, Debug, Serialize, Deserialize, PartialEq)]
#[serde(rename_all = "snake_case")]
pub enum Op {
    /// create or overwrite a file (parents created)
    Write { path: String, content: Content },
    /// overwrite but keep the previous mtime
    WriteKeepMtime { path: String, content: Content },
    Remove { path: String },
    Mkdir { path: String },
    Symlink { path: String, target: String },
    Rename { from: String, to: String },
    /// copy a file (no-op when the source is missing)
    Copy { from: String, to: String },
    /// set mtime to this many seconds after 2020-01-01
    SetMtime { path: String, secs: i64 },
    /// touch: mtime := a fixed later instant, content unchanged
    Touch { path: String },
    EditHeader { path: String, edit: HeaderEdit },
    Build { node: NodeSpec, #[serde(default)] tag: String },
}

impl Op {
    pub fn is_build(&self) -> bool {
        matches!(self, Op::Build { .. })
    }
    pub fn kind(&self) -> &'static str {
        match self {
            Op::Write { .. } => "write",
            Op::WriteKeepMtime { .. } => "write_keep_mtime",
            Op::Remove { .. } => "remove",
            Op::Mkdir { .. } => "mkdir",
            Op::Symlink { .. } => "symlink",
            Op::Rename { .. } => "rename",
            Op::Copy { .. } => "copy",
            Op::SetMtime { .. } => "set_mtime",
            Op::Touch { .. } => "touch",
            Op::EditHeader { .. } => "edit_header",
            Op::Build { .. } => "build",
        }
    }
}

const EPOCH: i64 = 1_577_836_800; // 2020-01-01

fn split_lines(b: &[u8]) -> (Vec<u8>, Vec<u8>, Vec<u8>) {
    // (line1 incl. \n, line2 incl. \n, rest)
    let e1 = b.iter().position(|c| *c == b'\n').map(|p| p + 1).unwrap_or(b.len());
    let e2 = b[e1..].iter().position(|c| *c == b'\n').map(|p| e1 + p + 1).unwrap_or(b.len());
    (b[..e1].to_vec(), b[e1..e2].to_vec(), b[e2..].to_vec())
}

pub fn apply_header_edit(bytes: &[u8], edit: &HeaderEdit) -> Vec<u8> {
    let (mut l1, mut l2, rest) = split_lines(bytes);
    match edit {
        HeaderEdit::FlipHashDigit { pos } => {
            // "// sha3: <64 hex>\n"
            let start = 9;
            if l2.len() >= start + 64 {
                let i = start + pos % 64;
                l2[i] = if l2[i] == b'0' { b'1' } else { b'0' };
            } else if !l2.is_empty() {
                let i = pos % l2.len();
                l2[i] = if l2[i] == b'x' { b'y' } else { b'x' };
            }
        }
        HeaderEdit::TruncateHashLine { keep } => {
            let had_nl = l2.last() == Some(&b'\n');
            let body_len = if had_nl { l2.len() - 1 } else { l2.len() };
            let k = (*keep).min(body_len.saturating_sub(1));
            l2.truncate(k);
            if had_nl {
                l2.push(b'\n');
            }
        }
        HeaderEdit::ChangeVersion { to } => {
            // // auto-generated: "lalrpop 0.23.1"
            let s = String::from_utf8_lossy(&l1).into_owned();
            if let (Some(a), Some(b)) = (s.find("lalrpop "), s.rfind('"')) {
                if a + 8 <= b {
                    let new = format!("{}{}{}", &s[..a + 8], to, &s[b..]);
                    l1 = new.into_bytes();
                }
            }
        }
        HeaderEdit::SwapLines => {
            std::mem::swap(&mut l1, &mut l2);
            if l1.last() != Some(&b'\n') && !l1.is_empty() {
                l1.push(b'\n');
            }
        }
        HeaderEdit::TruncateFile { bytes: n } => {
            let mut all = bytes.to_vec();
            // never leave exactly the two intact header lines (that is a body edit)
            let hdr = l1.len() + l2.len();
            let n = if *n >= hdr.saturating_sub(1) { hdr.saturating_sub(2) } else { *n };
            all.truncate(n);
            return all;
        }
        HeaderEdit::Garbage { line, hex } => {
            let g = simcore::unhex(hex).unwrap_or_default();
            let l = if *line == 0 { &mut l1 } else { &mut l2 };
            for (i, b) in g.iter().enumerate() {
                if i < l.len() && l[i] != b'\n' {
                    l[i] = *b;
                }
            }
        }
        HeaderEdit::DropVersionLine => {
            l1.clear();
        }
        HeaderEdit::UppercaseHash => {
            let start = 9.min(l2.len());
            for b in l2[start..].iter_mut() {
                b.make_ascii_uppercase();
            }
        }
        HeaderEdit::AppendToHashLine { text } => {
            let had_nl = l2.last() == Some(&b'\n');
            if had_nl {
                l2.pop();
            }
            l2.extend_from_slice(text.as_bytes());
            if had_nl {
                l2.push(b'\n');
            }
        }
        HeaderEdit::AppendToVersionLine { text } => {
            let had_nl = l1.last() == Some(&b'\n');
            if had_nl {
                l1.pop();
            }
            l1.extend_from_slice(text.as_bytes());
            if had_nl {
                l1.push(b'\n');
            }
        }
        HeaderEdit::UppercaseVersionLine => {
            l1.make_ascii_uppercase();
        }
    }
    let mut out = l1;
    out.extend_from_slice(&l2);
    out.extend_from_slice(&rest);
    out
}

/// Execute a non-build op against the world.
pub fn apply_fs_op(w: &WorldDir, op: &Op) {
    match op {
        Op::Write { path, content } => {
            let p = w.abs(path);
            if let Some(d) = p.parent() {
                let _ = fs::create_dir_all(d);
            }
            // replace rather than truncate in place, as an editor's save would
            let _ = fs::remove_file(&p);
            let _ = fs::write(&p, content.bytes());
        }
        Op::WriteKeepMtime { path, content } => {
            let p = w.abs(path);
            let old = crate::world::file_id(&p);
            if let Some(d) = p.parent() {
                let _ = fs::create_dir_all(d);
            }
            let _ = fs::write(&p, content.bytes());
            if let Some(id) = old {
                set_mtime(&p, id.mtime_s, id.mtime_ns);
            }
        }
        Op::Remove { path } => {
            let p = w.abs(path);
            crate::world::remove_tree(&p);
        }
        Op::Mkdir { path } => {
            let _ = fs::create_dir_all(w.abs(path));
        }
        Op::Symlink { path, target } => {
            let p = w.abs(path);
            if let Some(d) = p.parent() {
                let _ = fs::create_dir_all(d);
            }
            let _ = fs::remove_file(&p);
            let target = target.replace("{ROOT}", &w.root().to_string_lossy());
            let _ = std::os::unix::fs::symlink(target, &p);
        }
        Op::Rename { from, to } => {
            let t = w.abs(to);
            if let Some(d) = t.parent() {
                let _ = fs::create_dir_all(d);
            }
            let _ = fs::rename(w.abs(from), t);
        }
        Op::Copy { from, to } => {
            if let Ok(b) = fs::read(w.abs(from)) {
                let t = w.abs(to);
                if let Some(d) = t.parent() {
                    let _ = fs::create_dir_all(d);
                }
                let _ = fs::remove_file(&t);
                let _ = fs::write(t, b);
            }
        }
        Op::SetMtime { path, secs } => {
            set_mtime(&w.abs(path), EPOCH + secs, 0);
        }
        Op::Touch { path } => {
            let p = w.abs(path);
            if let Some(id) = crate::world::file_id(&p) {
                set_mtime(&p, id.mtime_s + 3600, 0);
            }
        }
        Op::EditHeader { path, edit } => {
            let p = w.abs(path);
            if let Ok(b) = fs::read(&p) {
                let nb = apply_header_edit(&b, edit);
                if nb != b {
                    let _ = fs::write(&p, nb);
                }
            }
        }
        Op::Build { .. } => unreachable!("build ops are executed by the drivers"),
    }
}
