//! Grammar pool of engine A (corpus/build) and the edit families.

use simcore::Rng;

#[derive(Clone, Debug, PartialEq, Eq)]
pub enum Class {
    Valid,
    Error,
    /// outcome depends on the hash seed on the pinned tree (finding F4)
    SeedDependent,
}

#[derive(Clone, Debug)]
pub struct PoolText {
    pub name: String,
    pub class: Class,
    pub bytes: Vec<u8>,
}

pub struct Pool {
    pub all: Vec<PoolText>,
}

impl Pool {
    pub fn load() -> Pool {
        let dir = simcore::verif_root().join("corpus/build");
        let mut all = Vec::new();
        let mut names: Vec<_> = std::fs::read_dir(&dir)
            .unwrap_or_else(|e| simcore::harness_error(&format!("{}: {e}", dir.display())))
            .flatten()
            .map(|e| e.file_name().to_string_lossy().into_owned())
            .filter(|n| n.ends_with(".lalrpop"))
            .collect();
        names.sort();
        for n in names {
            let class = if n.starts_with("v_") {
                Class::Valid
            } else if n.starts_with("e_") {
                Class::Error
            } else {
                Class::SeedDependent
            };
            let bytes = std::fs::read(dir.join(&n)).expect("read pool text");
            all.push(PoolText { name: n.trim_end_matches(".lalrpop").to_string(), class, bytes });
        }
        if all.len() < 10 {
            simcore::harness_error("grammar pool is nearly empty");
        }
        Pool { all }
    }
    pub fn valid(&self) -> Vec<&PoolText> {
        self.all.iter().filter(|t| t.class == Class::Valid).collect()
    }
    /// valid texts whose source is small (fast builds, outputs of 13-60 KB)
    pub fn valid_small(&self) -> Vec<&PoolText> {
        self.all
            .iter()
            .filter(|t| t.class == Class::Valid && t.bytes.len() <= 700 && !matches!(t.name.as_str(), "v_tiny_macro" | "v_tiny_prec" | "v_t_inline_fallible"))
            .collect()
    }
    pub fn tiny(&self) -> Vec<&PoolText> {
        self.all.iter().filter(|t| t.class == Class::Valid && t.name.starts_with("v_tiny") && t.bytes.len() < 400 && t.name != "v_tiny_macro" && t.name != "v_tiny_prec").collect()
    }
    pub fn errors(&self) -> Vec<&PoolText> {
        self.all.iter().filter(|t| t.class == Class::Error).collect()
    }
    pub fn by_name(&self, n: &str) -> &PoolText {
        self.all.iter().find(|t| t.name == n).unwrap_or_else(|| simcore::harness_error(&format!("pool text {n} missing")))
    }
}

#[derive(Clone, Copy, Debug, PartialEq, Eq)]
pub enum Edit {
    AppendComment,
    PrependComment,
    MiddleBlankLine,
    TrailingSpace,
    AppendEpsilonRule,
    /// every line break becomes CR LF (or back to LF when the text already uses CR LF)
    ToggleCrlf,
    /// only one line break (number n) is toggled between LF and CR LF
    ToggleCrlfOneLine,
    /// tabs instead of the first run of spaces
    TabForSpaces,
    SyntaxError,
    Unresolved,
    NonUtf8,
    Empty,
    /// UTF-8 byte order mark in front of the text
    Bom,
    /// a NUL byte in the middle
    Nul,
}

pub const VALID_EDITS: &[Edit] = &[Edit::AppendComment, Edit::PrependComment, Edit::MiddleBlankLine, Edit::TrailingSpace, Edit::AppendEpsilonRule, Edit::ToggleCrlf, Edit::ToggleCrlfOneLine, Edit::TabForSpaces];
pub const ERROR_EDITS: &[Edit] = &[Edit::SyntaxError, Edit::Unresolved, Edit::NonUtf8, Edit::Empty, Edit::Bom, Edit::Nul];

pub fn apply_edit(base: &[u8], e: Edit, n: u64) -> Vec<u8> {
    let mut v = base.to_vec();
    match e {
        Edit::AppendComment => v.extend_from_slice(format!("\n// edit {n}\n").as_bytes()),
        Edit::PrependComment => {
            let mut w = format!("// edit {n}\n").into_bytes();
            w.extend_from_slice(&v);
            v = w;
        }
        Edit::MiddleBlankLine => {
            let pos = v.iter().position(|b| *b == b';').map(|p| p + 1).unwrap_or(v.len());
            let ins = "\n".repeat(1 + (n % 3) as usize);
            v.splice(pos..pos, ins.bytes());
        }
        Edit::TrailingSpace => v.extend_from_slice(" ".repeat(1 + (n % 4) as usize).as_bytes()),
        Edit::AppendEpsilonRule => v.extend_from_slice(format!("\nExtraRule{n}: () = => ();\n").as_bytes()),
        Edit::ToggleCrlf => {
            if v.windows(2).any(|w| w == b"\r\n") {
                v = String::from_utf8_lossy(&v).replace("\r\n", "\n").into_bytes();
            } else {
                v = String::from_utf8_lossy(&v).replace('\n', "\r\n").into_bytes();
            }
        }
        Edit::ToggleCrlfOneLine => {
            let breaks: Vec<usize> = v.iter().enumerate().filter(|(_, b)| **b == b'\n').map(|(i, _)| i).collect();
            if !breaks.is_empty() {
                let i = breaks[(n as usize) % breaks.len()];
                if i > 0 && v[i - 1] == b'\r' {
                    v.remove(i - 1);
                } else {
                    v.insert(i, b'\r');
                }
            }
        }
        Edit::TabForSpaces => {
            if let Some(i) = v.iter().position(|b| *b == b' ') {
                v[i] = b'\t';
            }
        }
        Edit::SyntaxError => v.extend_from_slice(b"\n@@@ not a grammar\n"),
        Edit::Unresolved => v.extend_from_slice(format!("\nBadRule{n}: () = MissingSymbol => ();\n").as_bytes()),
        Edit::NonUtf8 => v.extend_from_slice(b"\n// \xff\xfe\n"),
        Edit::Empty => v.clear(),
        Edit::Bom => {
            let mut w = vec![0xef, 0xbb, 0xbf];
            w.extend_from_slice(&v);
            v = w;
        }
        Edit::Nul => {
            let pos = v.len() / 2;
            v.insert(pos, 0);
        }
    }
    v
}

pub fn random_valid_edit(rng: &mut Rng, base: &[u8]) -> Vec<u8> {
    let e = *rng.pick(VALID_EDITS);
    let n = rng.below(1000);
    apply_edit(base, e, n)
}
