//! Run one build op next to the reference model and evaluate the per-build
//! invariants (DESIGN appendix B).  Used by the C21, C22 and C23 drivers.

use crate::model::{plan_call, plan_cli, CallPlan, Env, Planned};
use crate::node::{run_node, Bins, CallSpec, NodeKind, NodeRun, NodeSpec};
use crate::oracle::{Flags, Forced, Oracle};
use crate::world::{file_id, FileId, WorldDir};
use std::collections::{BTreeMap, BTreeSet};
use std::sync::Arc;

pub struct Ctx<'a> {
    pub bins: &'a Bins,
    pub oracle: &'a Oracle,
    pub world: &'a WorldDir,
    pub scratch: &'a WorldDir,
}

#[derive(Clone, Debug)]
pub struct Failure {
    pub invariant: &'static str,
    pub path: String,
    pub detail: String,
    /// coarse, stable descriptors used to build the cause key
    pub facets: BTreeMap<&'static str, String>,
}

#[derive(Clone, Debug, Default)]
pub struct Probes {
    pub skipped_current: u64,
    pub rebuilt_stale_hash: u64,
    pub rebuilt_stale_version: u64,
    pub rebuilt_absent: u64,
    pub rebuilt_bad_header: u64,
    pub failed_and_removed: u64,
    pub failed_nothing_to_remove: u64,
    pub stopped_at_first_failure: u64,
    pub whitespace_rejected: u64,
    pub dangling_skipped: u64,
    pub links_followed: u64,
    pub leading_src_stripped: u64,
    pub inner_src_kept: u64,
    pub dotted_stem: u64,
    pub degenerate_stem: u64,
    pub rejected_calls: u64,
    pub directives_checked: u64,
    pub collisions_skipped: u64,
    pub files_planned: u64,
}

impl Probes {
    pub fn add(&mut self, o: &Probes) {
        self.skipped_current += o.skipped_current;
        self.rebuilt_stale_hash += o.rebuilt_stale_hash;
        self.rebuilt_stale_version += o.rebuilt_stale_version;
        self.rebuilt_absent += o.rebuilt_absent;
        self.rebuilt_bad_header += o.rebuilt_bad_header;
        self.failed_and_removed += o.failed_and_removed;
        self.failed_nothing_to_remove += o.failed_nothing_to_remove;
        self.stopped_at_first_failure += o.stopped_at_first_failure;
        self.whitespace_rejected += o.whitespace_rejected;
        self.dangling_skipped += o.dangling_skipped;
        self.links_followed += o.links_followed;
        self.leading_src_stripped += o.leading_src_stripped;
        self.inner_src_kept += o.inner_src_kept;
        self.dotted_stem += o.dotted_stem;
        self.degenerate_stem += o.degenerate_stem;
        self.rejected_calls += o.rejected_calls;
        self.directives_checked += o.directives_checked;
        self.collisions_skipped += o.collisions_skipped;
        self.files_planned += o.files_planned;
    }
    pub fn to_json(&self) -> serde_json::Value {
        serde_json::json!({
            "skipped_because_current": self.skipped_current,
            "rebuilt_because_hash_differs": self.rebuilt_stale_hash,
            "rebuilt_because_version_differs": self.rebuilt_stale_version,
            "rebuilt_because_absent": self.rebuilt_absent,
            "rebuilt_because_header_damaged": self.rebuilt_bad_header,
            "failed_and_removed": self.failed_and_removed,
            "failed_nothing_to_remove": self.failed_nothing_to_remove,
            "stopped_at_first_failure": self.stopped_at_first_failure,
            "whitespace_rejected": self.whitespace_rejected,
            "dangling_link_skipped": self.dangling_skipped,
            "links_followed": self.links_followed,
            "leading_src_stripped": self.leading_src_stripped,
            "inner_src_kept": self.inner_src_kept,
            "dotted_stem": self.dotted_stem,
            "degenerate_stem": self.degenerate_stem,
            "rejected_calls": self.rejected_calls,
            "directive_sets_checked": self.directives_checked,
            "collisions_skipped": self.collisions_skipped,
            "files_planned": self.files_planned,
        })
    }
}

/// status of an output file relative to the text it should reflect
#[derive(Clone, Copy, Debug, PartialEq, Eq, PartialOrd, Ord)]
pub enum OutStatus {
    Absent,
    Current,
    StaleHash,
    StaleVersion,
    BadHeader,
    NonUtf8Header,
    BodyDiffers,
}

impl OutStatus {
    pub fn name(self) -> &'static str {
        match self {
            OutStatus::Absent => "absent",
            OutStatus::Current => "current",
            OutStatus::StaleHash => "stale-hash",
            OutStatus::StaleVersion => "stale-version",
            OutStatus::BadHeader => "bad-header",
            OutStatus::NonUtf8Header => "non-utf8-header",
            OutStatus::BodyDiffers => "body-differs-under-intact-header",
        }
    }
}

fn two_lines(b: &[u8]) -> (&[u8], &[u8]) {
    let e1 = b.iter().position(|c| *c == b'\n').map(|p| p + 1).unwrap_or(b.len());
    let e2 = b[e1..].iter().position(|c| *c == b'\n').map(|p| e1 + p + 1).unwrap_or(b.len());
    (&b[..e1], &b[e1..e2])
}

pub fn classify_out(actual: Option<&[u8]>, expected: Option<&[u8]>) -> OutStatus {
    let a = match actual {
        None => return OutStatus::Absent,
        Some(a) => a,
    };
    if let Some(e) = expected {
        if a == e {
            return OutStatus::Current;
        }
        let (a1, a2) = two_lines(a);
        let (e1, e2) = two_lines(e);
        if std::str::from_utf8(a1).is_err() || std::str::from_utf8(a2).is_err() {
            return OutStatus::NonUtf8Header;
        }
        let t = |x: &[u8]| String::from_utf8_lossy(x).trim().to_string();
        let version_ok = t(a1) == t(e1);
        let hash_ok = t(a2) == t(e2);
        return match (version_ok, hash_ok) {
            (true, true) => OutStatus::BodyDiffers,
            (true, false) => {
                if t(a2).starts_with("// sha3: ") && t(a2).len() == t(e2).len() {
                    OutStatus::StaleHash
                } else {
                    OutStatus::BadHeader
                }
            }
            (false, true) => {
                if t(a1).starts_with("// auto-generated: \"lalrpop ") {
                    OutStatus::StaleVersion
                } else {
                    OutStatus::BadHeader
                }
            }
            (false, false) => OutStatus::BadHeader,
        };
    }
    // no expected bytes (text does not build): describe the header only
    let (a1, a2) = two_lines(a);
    if std::str::from_utf8(a1).is_err() || std::str::from_utf8(a2).is_err() {
        OutStatus::NonUtf8Header
    } else {
        OutStatus::StaleHash
    }
}

pub fn text_class(text: &[u8], forced: &Forced) -> &'static str {
    if std::str::from_utf8(text).is_err() {
        "non-utf8"
    } else if text.is_empty() {
        "empty"
    } else if forced.builds() {
        "valid"
    } else {
        "invalid"
    }
}

pub fn effective_features(c: &CallSpec, env: &[(String, String)]) -> Option<Vec<String>> {
    if let Some(f) = &c.features {
        let mut f = f.clone();
        f.sort();
        f.dedup();
        return Some(f);
    }
    let dir_entry = matches!(c.entry.as_str(), "process_dir" | "process" | "process_current_dir" | "process_root" | "process_src");
    if dir_entry {
        let mut f: Vec<String> = env
            .iter()
            .filter_map(|(k, _)| k.strip_prefix("CARGO_FEATURE_").map(|x| x.replace('_', "-").to_ascii_lowercase()))
            .collect();
        f.sort();
        f.dedup();
        Some(f)
    } else {
        Some(vec![])
    }
}

pub struct FileObs {
    pub planned: Planned,
    pub forced: Arc<Forced>,
    pub pre: OutStatus,
    pub pre_id: Option<FileId>,
    pub post: OutStatus,
}

pub struct BuildObs {
    pub run: NodeRun,
    pub failures: Vec<Failure>,
    pub probes: Probes,
    /// per processed file, in order (all calls concatenated)
    pub files: Vec<FileObs>,
    /// abstract transitions (text class, pre status, post status) seen
    pub transitions: Vec<(String, String, String)>,
}

struct CallView {
    plan: CallPlan,
    flags: Flags,
    force: bool,
    report: bool,
    rerun: bool,
}

fn views(spec: &NodeSpec, env: &Env) -> Vec<CallView> {
    // texts written by the node itself between two calls (entry "write_file")
    let mut overlay: std::collections::HashMap<String, Vec<u8>> = std::collections::HashMap::new();
    let root_s = env.root.to_string_lossy().into_owned();
    match &spec.kind {
        NodeKind::Api { calls } => calls
            .iter()
            .map(|c| {
                if c.entry == "write_file" {
                    if let Some(rel) = crate::node::rel_of(&root_s, env.cwd_rel, c.path.as_deref().unwrap_or("")) {
                        overlay.insert(rel, simcore::unhex(c.write_hex.as_deref().unwrap_or("")).unwrap_or_default());
                    }
                }
                let mut flags = Flags::of_call(c);
                flags.features = effective_features(c, &spec.env);
                let (force, report, rerun) = if c.entry == "process_root" || c.entry == "process_src" {
                    // free functions use a default configuration
                    flags = Flags { features: effective_features(&CallSpec { entry: c.entry.clone(), ..Default::default() }, &spec.env), ..Default::default() };
                    (false, false, false)
                } else {
                    (c.force, c.report, c.rerun)
                };
                let mut plan = plan_call(env, c);
                if let CallPlan::Files { files, .. } = &mut plan {
                    for f in files.iter_mut() {
                        if let Some(t) = overlay.get(&f.rel) {
                            f.text = t.clone();
                        }
                    }
                }
                CallView { plan, flags, force, report, rerun }
            })
            .collect(),
        NodeKind::Cli { args } => {
            // parse the CLI arguments the documented way
            let mut out_dir: Option<String> = None;
            let mut force = false;
            let mut report = false;
            let mut comments = false;
            let mut no_ws = false;
            let mut feats: Option<Vec<String>> = None;
            let mut inputs = Vec::new();
            let mut i = 0;
            while i < args.len() {
                match args[i].as_str() {
                    "-o" | "--out-dir" => {
                        out_dir = args.get(i + 1).cloned();
                        i += 1;
                    }
                    "--features" => {
                        feats = args.get(i + 1).map(|s| s.split(',').map(String::from).collect());
                        i += 1;
                    }
                    "-l" | "--level" => {
                        i += 1;
                    }
                    "-f" | "--force" => force = true,
                    "--report" => report = true,
                    "--comments" => comments = true,
                    "--no-whitespace" => no_ws = true,
                    "-c" | "--color" => {}
                    other => inputs.push(other.to_string()),
                }
                i += 1;
            }
            let mut f = feats.unwrap_or_default();
            f.sort();
            f.dedup();
            let flags = Flags { report, comments, no_whitespace: no_ws, features: Some(f) };
            // one view per input: the CLI stops at the first failing input
            let files = plan_cli(env, &inputs, out_dir.as_deref());
            vec![CallView {
                plan: CallPlan::Files { files, dangling_skipped: 0, links_followed: 0 },
                flags,
                force,
                report,
                rerun: false,
            }]
        }
    }
}

fn fail(inv: &'static str, path: &str, detail: String, facets: &[(&'static str, String)]) -> Failure {
    Failure { invariant: inv, path: path.to_string(), detail, facets: facets.iter().cloned().collect() }
}

/// Run `spec` (fault-free or with transparent faults only) and evaluate all
/// per-build invariants.
pub fn checked_build(ctx: &Ctx, spec: &NodeSpec) -> BuildObs {
    let root = ctx.world.root();
    // the node's working directory exists by the time it runs (the runner creates it): the model
    // must see the same tree, e.g. for inputs spelled `../g.lalrpop`
    if !spec.cwd.is_empty() {
        let _ = std::fs::create_dir_all(root.join(&spec.cwd));
    }
    let out_dir_env = spec.env.iter().find(|(k, _)| k == "OUT_DIR").map(|(_, v)| v.replace("{ROOT}", &root.to_string_lossy()));
    let env = Env { root: &root, cwd_rel: &spec.cwd, out_dir_env };
    // resolve {ROOT} in the spec as the node runner will
    let resolved = {
        let mut s = spec.clone();
        let rs = root.to_string_lossy().into_owned();
        if let NodeKind::Api { calls } = &mut s.kind {
            for c in calls {
                c.path = c.path.take().map(|p| p.replace("{ROOT}", &rs));
                c.in_dir = c.in_dir.take().map(|p| p.replace("{ROOT}", &rs));
                c.out_dir = c.out_dir.take().map(|p| p.replace("{ROOT}", &rs));
            }
        }
        if let NodeKind::Cli { args } = &mut s.kind {
            for a in args {
                *a = a.replace("{ROOT}", &rs);
            }
        }
        s
    };
    let vs = views(&resolved, &env);
    let mut probes = Probes::default();
    // canonicalisation is memoised per build: a report is written with thousands of small writes
    let canon_memo: std::cell::RefCell<std::collections::HashMap<String, String>> = Default::default();
    let canon_rel = |root: &std::path::Path, rel: &str| -> String {
        if let Some(v) = canon_memo.borrow().get(rel) {
            return v.clone();
        }
        let v = crate::model::canon_rel(root, rel);
        canon_memo.borrow_mut().insert(rel.to_string(), v.clone());
        v
    };

    // ---- expectations and pre-state
    struct Exp {
        call: usize,
        planned: Planned,
        forced: Arc<Forced>,
        pre_bytes: Option<Vec<u8>>,
        pre_id: Option<FileId>,
        pre_report_id: Option<FileId>,
        in_prefix: bool,
        fails: bool,
        pre: OutStatus,
        tclass: &'static str,
    }
    let mut exps: Vec<Exp> = Vec::new();
    let mut call_should_fail: Vec<bool> = Vec::new();
    let mut any_force = false;
    for (ci, v) in vs.iter().enumerate() {
        any_force |= v.force;
        match &v.plan {
            CallPlan::Reject { .. } => {
                probes.rejected_calls += 1;
                call_should_fail.push(true);
            }
            CallPlan::Files { files, dangling_skipped, links_followed } => {
                probes.dangling_skipped += *dangling_skipped as u64;
                probes.links_followed += *links_followed as u64;
                let mut stopped = false;
                let mut fails_any = false;
                for p in files {
                    probes.files_planned += 1;
                    let forced = ctx.oracle.forced(ctx.scratch, ctx.bins, &p.text, &v.flags);
                    let this_fails = p.ws_name || !forced.builds();
                    let pre_bytes = std::fs::read(root.join(&p.out_rel)).ok();
                    let pre_id = file_id(&root.join(&p.out_rel));
                    let pre_report_id = file_id(&root.join(&p.report_rel));
                    let expected0 = match &*forced {
                        Forced::Built { rs, .. } if !p.ws_name => Some(rs.as_slice()),
                        _ => None,
                    };
                    let pre = classify_out(pre_bytes.as_deref(), expected0);
                    let tclass = text_class(&p.text, &forced);
                    exps.push(Exp { call: ci, planned: p.clone(), forced, pre_bytes, pre_id, pre_report_id, in_prefix: !stopped, fails: this_fails, pre, tclass });
                    if !stopped && this_fails {
                        stopped = true;
                        fails_any = true;
                        if files.last().map(|l| l.spelled != p.spelled).unwrap_or(false) {
                            probes.stopped_at_first_failure += 1;
                        }
                    }
                }
                call_should_fail.push(fails_any);
            }
        }
    }
    // output collisions are outside the documented mapping: drop checks on them
    // (the same grammar processed twice by two calls of one node is not a collision)
    let mut seen_files: BTreeMap<String, BTreeSet<String>> = BTreeMap::new();
    for e in exps.iter() {
        seen_files.entry(canon_rel(&root, &e.planned.out_rel)).or_default().insert(canon_rel(&root, &e.planned.rel));
    }
    let seen: BTreeMap<String, usize> = seen_files.iter().map(|(k, v)| (k.clone(), v.len())).collect();
    // a later call of the same node supersedes an earlier one for the same output
    let mut last_for_out: BTreeMap<String, usize> = BTreeMap::new();
    for (i, e) in exps.iter().enumerate() {
        if e.in_prefix {
            last_for_out.insert(canon_rel(&root, &e.planned.out_rel), i);
        }
    }
    let node_edits = matches!(&resolved.kind, NodeKind::Api { calls } if calls.iter().any(|c| c.entry == "write_file"));
    let multi_call = vs.len() > 1;

    // ---- run
    let run = run_node(ctx.world, ctx.bins, spec);
    canon_memo.borrow_mut().clear();
    let mut failures = Vec::new();
    // The generator process may die on its own (stack overflow on a pathological grammar: SIGABRT /
    // SIGSEGV).  That is a failed build of the call that was running; calls after it never started.
    let died_at: Option<usize> = match run.signal {
        Some(sig) if sig != 9 => Some(if matches!(spec.kind, NodeKind::Cli { .. }) { 0 } else { run.results.len() }),
        _ => None,
    };
    let unreached = |call: usize| died_at.map(|d| call > d).unwrap_or(false);

    let is_cli = matches!(spec.kind, NodeKind::Cli { .. });
    let entry_names: Vec<String> = match &resolved.kind {
        NodeKind::Api { calls } => calls
            .iter()
            .map(|c| format!("{}{}{}{}", c.entry, if c.out_dir.is_some() { "+out_dir" } else { "" }, if c.in_dir.is_some() { "+in_dir" } else { "" }, if c.cargo_conventions { "+cargo" } else if c.in_source_tree { "+in_source" } else { "" }))
            .collect(),
        NodeKind::Cli { args } => vec![format!("cli{}", if args.iter().any(|a| a == "-o" || a == "--out-dir") { "+o" } else { "" })],
    };
    // ---- per-file invariants
    let mutated: Vec<(String, &crate::node::TraceLine)> = run
        .mutating()
        .filter(|t| t.res >= 0 && t.op != "close" && t.op != "rename-from")
        // opening an existing file read-write (or with O_CREAT alone) changes nothing: only an
        // open that truncates counts; a sync is not a mutation either.  `rename-from` lines were
        // dropped above, but the *source* of a rename is mutated too: handled through existence.
        .filter(|t| {
            let is_open = t.op.starts_with("open") || t.op == "creat";
            let truncating = (t.arg & 0o1000) != 0; // O_TRUNC
            let created = is_open && (t.arg & 0o100) != 0; // O_CREAT: may have created the file
            !(t.op == "fsync" || t.op == "fdatasync") && (!is_open || truncating || created)
        })
        .filter_map(|t| t.rel.as_ref().map(|r| (canon_rel(&root, r), t)))
        .collect();
    let mut files_obs = Vec::new();
    let mut transitions = Vec::new();
    let mut allowed: BTreeSet<String> = BTreeSet::new();
    // a file that goes wrong stops the call: files after it were never reached, and judging
    // them would only repeat the first failure under other names
    let mut call_first_failure_seen: BTreeSet<usize> = BTreeSet::new();
    let mut after_first_failure: BTreeSet<String> = BTreeSet::new();
    for (ei, e) in exps.iter().enumerate() {
        let nfail_before = failures.len();
        let superseded = last_for_out.get(&canon_rel(&root, &e.planned.out_rel)).map(|l| *l != ei).unwrap_or(false);
        let judged = !call_first_failure_seen.contains(&e.call) && !superseded && !unreached(e.call);
        if unreached(e.call) {
            after_first_failure.insert(e.planned.spelled.clone());
        }
        if !judged {
            after_first_failure.insert(e.planned.spelled.clone());
        }
        let p = &e.planned;
        let out_abs = root.join(&p.out_rel);
        let post_bytes = std::fs::read(&out_abs).ok();
        let expected = match &*e.forced {
            Forced::Built { rs, .. } if !p.ws_name => Some(rs.as_slice()),
            _ => None,
        };
        let pre = e.pre;
        let post = classify_out(post_bytes.as_deref(), expected);
        let tclass = e.tclass;
        let canon_out = canon_rel(&root, &p.out_rel);
        let collided = seen.get(&canon_out).copied().unwrap_or(0) > 1;
        if p.rel.rsplit('/').next().map(|n| n.trim_end_matches(".lalrpop").contains('.')).unwrap_or(false) {
            probes.dotted_stem += 1;
        }
        if p.degenerate_stem {
            probes.degenerate_stem += 1;
        }
        let facets = |extra: &[(&'static str, String)]| -> Vec<(&'static str, String)> {
            let mut v = vec![("text", tclass.to_string()), ("pre", pre.name().to_string())];
            if p.degenerate_stem {
                v.push(("name", "stem-consists-only-of-dots".to_string()));
            }
            v.push(("entry", entry_names[e.call].clone()));
            v.extend_from_slice(extra);
            v
        };
        if e.in_prefix {
            allowed.insert(canon_out.clone());
        }
        if e.in_prefix && vs[e.call].report {
            allowed.insert(canon_rel(&root, &p.report_rel));
        }
        if e.in_prefix && judged {
            transitions.push((tclass.to_string(), pre.name().to_string(), post.name().to_string()));
            if collided {
                probes.collisions_skipped += 1;
            } else if p.ws_name {
                probes.whitespace_rejected += 1;
                // nothing may be written for it
                if post_bytes != e.pre_bytes {
                    failures.push(fail("whitespace-rejected", &p.out_rel, "output changed for a file whose name contains white space".into(), &facets(&[])));
                }
            } else if e.fails {
                if post_bytes.is_some() {
                    failures.push(fail(
                        "absent-after-failed-build",
                        &p.out_rel,
                        format!("build of {} fails but {} exists afterwards ({} bytes)", p.rel, p.out_rel, post_bytes.as_ref().map(|b| b.len()).unwrap_or(0)),
                        &facets(&[]),
                    ));
                }
                if e.pre_bytes.is_some() {
                    probes.failed_and_removed += 1;
                } else {
                    probes.failed_nothing_to_remove += 1;
                }
            } else if let Forced::Built { rs, report } = &*e.forced {
                match &post_bytes {
                    Some(b) if b == rs => {}
                    other => failures.push(fail(
                        "current-after-build",
                        &p.out_rel,
                        format!(
                            "{} after build is {} ({} bytes; forced build gives {} bytes)",
                            p.out_rel,
                            post.name(),
                            other.as_ref().map(|b| b.len() as i64).unwrap_or(-1),
                            rs.len()
                        ),
                        &facets(&[("post", post.name().to_string())]),
                    )),
                }
                if vs[e.call].report {
                    let rep = std::fs::read(root.join(&p.report_rel)).ok();
                    if rep.as_ref() != report.as_ref() {
                        failures.push(fail(
                            "report-current-after-build",
                            &p.report_rel,
                            format!("report has {} bytes, forced build gives {}", rep.map(|b| b.len() as i64).unwrap_or(-1), report.as_ref().map(|b| b.len() as i64).unwrap_or(-1)),
                            &facets(&[]),
                        ));
                    }
                }
                match pre {
                    OutStatus::Current => {
                        if !any_force && !node_edits {
                            probes.skipped_current += 1;
                            // untouched: no mutating op on that path, same inode and mtime
                            // an O_CREAT open of a file that exists (it does: it was current) changes nothing
                            let touched: Vec<String> = mutated
                                .iter()
                                .filter(|(c, t)| *c == canon_out && !((t.op.starts_with("open") || t.op == "creat") && (t.arg & 0o1000) == 0))
                                .map(|(_, t)| format!("{}#{}", t.op, t.seq))
                                .collect();
                            let post_id = file_id(&out_abs);
                            if !touched.is_empty() || post_id != e.pre_id {
                                failures.push(fail(
                                    "untouched-when-current",
                                    &p.out_rel,
                                    format!("output was current before a non-forced build but was touched: ops [{}], id {:?} -> {:?}", touched.join(","), e.pre_id, post_id),
                                    &facets(&[]),
                                ));
                            }
                            if vs[e.call].report && !multi_call {
                                let rid = file_id(&root.join(&p.report_rel));
                                if rid != e.pre_report_id && e.pre_report_id.is_some() {
                                    failures.push(fail("untouched-when-current", &p.report_rel, "report rewritten although output was current".into(), &facets(&[("role", "report".into())])));
                                }
                            }
                        }
                    }
                    OutStatus::StaleHash => probes.rebuilt_stale_hash += 1,
                    OutStatus::StaleVersion => probes.rebuilt_stale_version += 1,
                    OutStatus::Absent => probes.rebuilt_absent += 1,
                    _ => probes.rebuilt_bad_header += 1,
                }
            }
        }
        if failures.len() > nfail_before {
            call_first_failure_seen.insert(e.call);
        }
        // path-shape probes
        if p.rel.starts_with("src/") || p.rel.contains("/src/") {
            let o = &p.out_rel;
            if o.contains("/src/") || o.starts_with("src/") {
                probes.inner_src_kept += 1;
            } else {
                probes.leading_src_stripped += 1;
            }
        }
        files_obs.push(FileObs { planned: p.clone(), forced: e.forced.clone(), pre, pre_id: e.pre_id.clone(), post });
    }

    // ---- no panic, verdict per call (after the per-file pass, so that the cause key can
    // name the first file that went wrong)
    let first_bad = |ci: usize| -> String {
        files_obs
            .iter()
            .zip(exps.iter())
            .filter(|(_, e)| e.call == ci && e.in_prefix)
            .find(|(o, e)| if e.fails { o.post != OutStatus::Absent } else { o.post != OutStatus::Current })
            .map(|(o, e)| format!("{}/{}", e.tclass, o.pre.name()))
            .unwrap_or_else(|| "-".to_string())
    };
    let verdict = if died_at.is_some() { Ok(false) } else { run.verdict() };
    match verdict {
        Err(e) => {
            let where_ = e.rsplit(" @ ").next().map(|l| l.split(':').next().unwrap_or("").rsplit('/').next().unwrap_or("").to_string()).unwrap_or_default();
            failures.push(fail("no-panic", "", e.clone(), &[("where", where_)]))
        }
        Ok(_) => {
            for (ci, want_fail) in call_should_fail.iter().enumerate() {
                if unreached(ci) {
                    continue;
                }
                let got = if is_cli { run.results.first() } else { run.results.get(ci) };
                let got_fail = got.map(|r| r.status != "ok").unwrap_or(true);
                if *want_fail != got_fail {
                    let why = match &vs[ci].plan {
                        CallPlan::Reject { why } => format!("model rejects: {why}"),
                        _ if *want_fail => "model: a processed file fails".to_string(),
                        _ => "model: every processed file builds".to_string(),
                    };
                    let mut fc: Vec<(&'static str, String)> = vec![("expected", if *want_fail { "err".into() } else { "ok".into() })];
                    if exps.iter().any(|e| e.call == ci && e.planned.degenerate_stem) {
                        fc.push(("name", "stem-consists-only-of-dots".to_string()));
                    }
                    fc.push(("entry", entry_names.get(ci).cloned().unwrap_or_default()));
                    fc.push(("files", first_bad(ci)));
                    let words: Vec<String> = got
                        .map(|r| r.msg.lines().last().unwrap_or("").split(|ch: char| !ch.is_ascii_alphabetic()).filter(|w| w.len() > 1).take(5).map(|w| w.to_ascii_lowercase()).collect())
                        .unwrap_or_default();
                    fc.push(("msg", words.join("-")));
                    fc.push(("text", first_bad(ci).split('/').next().unwrap_or("-").to_string()));
                    let msg = got.map(|r| format!("{}: {}", r.status, r.msg.lines().last().unwrap_or(""))).unwrap_or_else(|| "no result".into());
                    failures.push(fail("ok-iff-all-built", "", format!("call {ci}: got [{msg}], expected failure={want_fail} ({why})"), &fc));
                }
            }
        }
    }

    // ---- mutated set ⊆ allowed outputs (+ their ancestor directories)
    let mut allowed_dirs: BTreeSet<String> = BTreeSet::new();
    for a in &allowed {
        let mut cur = a.as_str();
        while let Some(i) = cur.rfind('/') {
            cur = &cur[..i];
            allowed_dirs.insert(cur.to_string());
        }
    }
    for v in &vs {
        // out_dir itself may be created even when nothing is processed
        if let CallPlan::Files { .. } = &v.plan {}
    }
    for (c, t) in &mutated {
        if allowed.contains(c) {
            continue;
        }
        if t.op == "mkdir" {
            // creating a directory that already exists fails (res<0) and is filtered; a new
            // directory must be an ancestor of an allowed output
            if allowed_dirs.contains(c) {
                continue;
            }
        }
        // a path that no longer exists when the build returns (a temporary) is ignored
        let still = std::fs::symlink_metadata(root.join(c)).is_ok();
        if !still {
            continue;
        }
        failures.push(fail(
            "mutated-set-equals-expected",
            c,
            format!("{} #{} on `{}` which is not an output of a processed grammar", t.op, t.seq, c),
            &[("op", t.op.clone())],
        ));
    }

    // ---- rerun directives
    let any_rerun = vs.iter().any(|v| v.rerun);
    let directive_lines: Vec<&str> = run.stdout.lines().filter_map(|l| l.strip_prefix("cargo:rerun-if-changed=")).collect();
    if !is_cli {
        let all_rerun = vs.iter().all(|v| v.rerun);
        if !any_rerun {
            if !directive_lines.is_empty() {
                failures.push(fail("directives-name-processed", "", format!("directives emitted although disabled: {:?}", directive_lines), &[("mode", "off".into())]));
            }
        } else if all_rerun {
            probes.directives_checked += 1;
            let canon = |spelled: &str| -> String {
                let abs = if spelled.starts_with('/') { std::path::PathBuf::from(spelled) } else { root.join(&spec.cwd).join(spelled) };
                std::fs::canonicalize(&abs).map(|p| p.to_string_lossy().into_owned()).unwrap_or_else(|_| format!("<unresolvable>{spelled}"))
            };
            let got: BTreeSet<String> = directive_lines.iter().map(|l| canon(l)).collect();
            let mut want: BTreeSet<String> = BTreeSet::new();
            let mut optional: BTreeSet<String> = BTreeSet::new();
            for e in &exps {
                if !e.in_prefix {
                    continue;
                }
                let c = canon(&e.planned.spelled);
                if e.planned.ws_name {
                    // rejected, hence not processed: must not be named
                } else if after_first_failure.contains(&e.planned.spelled) {
                    optional.insert(c);
                } else {
                    want.insert(c);
                }
            }
            let missing: Vec<&String> = want.difference(&got).collect();
            let extra: Vec<&String> = got.iter().filter(|g| !want.contains(*g) && !optional.contains(*g)).collect();
            if !missing.is_empty() || !extra.is_empty() {
                failures.push(fail(
                    "directives-name-processed",
                    "",
                    format!("missing {:?}, extra {:?}", missing, extra),
                    &[("mode", "on".into()), ("kind", if !missing.is_empty() { "missing".into() } else { "extra".into() })],
                ));
            }
        }
    }

    BuildObs { run, failures, probes, files: files_obs, transitions }
}
