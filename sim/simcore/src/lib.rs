//! Shared pieces of both engines: the one PRNG, digests, evidence files,
//! known-findings file, exit-code contract.

use serde::{Deserialize, Serialize};
use serde_json::{json, Value};
use std::collections::BTreeMap;
use std::path::{Path, PathBuf};

pub const EXIT_OK: i32 = 0;
pub const EXIT_VIOLATION: i32 = 1;
pub const EXIT_HARNESS: i32 = 2;

/// SplitMix64: the only source of random choices in the simulators.
#[derive(Clone, Debug)]
pub struct Rng(pub u64);

impl Rng {
    pub fn new(seed: u64) -> Rng {
        let mut r = Rng(seed ^ 0x5DEECE66D_u64.wrapping_mul(0x9E3779B97F4A7C15));
        r.next();
        r
    }
    /// Derive an independent stream for sub-task `n`.
    pub fn derive(seed: u64, n: u64) -> Rng {
        Rng::new(seed.wrapping_mul(1 << 20).wrapping_add(n).wrapping_mul(0xD1342543DE82EF95).wrapping_add(n))
    }
    pub fn next(&mut self) -> u64 {
        self.0 = self.0.wrapping_add(0x9E3779B97F4A7C15);
        let mut z = self.0;
        z = (z ^ (z >> 30)).wrapping_mul(0xBF58476D1CE4E5B9);
        z = (z ^ (z >> 27)).wrapping_mul(0x94D049BB133111EB);
        z ^ (z >> 31)
    }
    /// uniform in 0..n (n > 0)
    pub fn below(&mut self, n: u64) -> u64 {
        assert!(n > 0);
        // multiply-shift; bias is irrelevant here
        ((self.next() as u128 * n as u128) >> 64) as u64
    }
    pub fn range(&mut self, lo: u64, hi_incl: u64) -> u64 {
        lo + self.below(hi_incl - lo + 1)
    }
    pub fn chance(&mut self, num: u64, den: u64) -> bool {
        self.below(den) < num
    }
    pub fn pick<'a, T>(&mut self, xs: &'a [T]) -> &'a T {
        &xs[self.below(xs.len() as u64) as usize]
    }
    pub fn shuffle<T>(&mut self, xs: &mut [T]) {
        for i in (1..xs.len()).rev() {
            let j = self.below(i as u64 + 1) as usize;
            xs.swap(i, j);
        }
    }
}

/// 64-bit FNV-1a with a finaliser; used for digests inside event logs.
#[derive(Clone, Copy)]
pub struct Fnv(pub u64);
impl Default for Fnv {
    fn default() -> Self {
        Fnv(0xcbf29ce484222325)
    }
}
impl Fnv {
    pub fn new() -> Fnv {
        Fnv::default()
    }
    pub fn write(&mut self, bytes: &[u8]) {
        for b in bytes {
            self.0 ^= *b as u64;
            self.0 = self.0.wrapping_mul(0x100000001b3);
        }
    }
    pub fn write_str(&mut self, s: &str) {
        self.write(s.as_bytes());
        self.write(&[0xff]);
    }
    pub fn write_u64(&mut self, v: u64) {
        self.write(&v.to_le_bytes());
    }
    pub fn finish(&self) -> u64 {
        let mut z = self.0;
        z = (z ^ (z >> 30)).wrapping_mul(0xBF58476D1CE4E5B9);
        z = (z ^ (z >> 27)).wrapping_mul(0x94D049BB133111EB);
        z ^ (z >> 31)
    }
}
pub fn digest(bytes: &[u8]) -> u64 {
    let mut f = Fnv::new();
    f.write(bytes);
    f.finish()
}

pub fn hex(bytes: &[u8]) -> String {
    let mut s = String::with_capacity(bytes.len() * 2);
    for b in bytes {
        s.push_str(&format!("{b:02x}"));
    }
    s
}
pub fn unhex(s: &str) -> Option<Vec<u8>> {
    if s.len() % 2 != 0 {
        return None;
    }
    (0..s.len()).step_by(2).map(|i| u8::from_str_radix(&s[i..i + 2], 16).ok()).collect()
}

/// File content carried inside op lists / replay files: readable when UTF-8.
#[derive(Clone, Debug, Serialize, Deserialize, PartialEq, Eq, Hash)]
#[serde(rename_all = "lowercase")]
pub enum Content {
    Text(String),
    Hex(String),
}
impl Content {
    pub fn from_bytes(b: &[u8]) -> Content {
        match std::str::from_utf8(b) {
            Ok(s) => Content::Text(s.to_string()),
            Err(_) => Content::Hex(hex(b)),
        }
    }
    pub fn bytes(&self) -> Vec<u8> {
        match self {
            Content::Text(s) => s.as_bytes().to_vec(),
            Content::Hex(h) => unhex(h).expect("bad hex content"),
        }
    }
}

pub fn verif_root() -> PathBuf {
    // <verif>/sim/target/release/<bin>  ->  <verif>
    if let Ok(v) = std::env::var("VERIF_ROOT") {
        return PathBuf::from(v);
    }
    let exe = std::env::current_exe().expect("current_exe");
    let mut p = exe.as_path();
    for _ in 0..4 {
        p = p.parent().expect("exe path too short");
    }
    p.to_path_buf()
}

pub fn env_seed() -> u64 {
    std::env::var("VERIF_SEED").ok().and_then(|s| s.trim().parse::<u64>().ok()).unwrap_or(1)
}

pub fn env_tier(default: &str) -> String {
    std::env::var("VERIF_TIER").ok().filter(|s| s == "quick" || s == "thorough").unwrap_or_else(|| default.to_string())
}

// ---------------------------------------------------------------- findings

#[derive(Clone, Debug, Deserialize)]
pub struct Finding {
    pub property: String,
    /// cause key produced by the minimiser (exact match)
    pub key: String,
    /// "known" | "fixed"
    pub status: String,
    #[serde(default)]
    pub commit: Option<String>,
    pub what: String,
}

#[derive(Clone, Debug, Deserialize, Default)]
pub struct Findings {
    #[serde(default)]
    pub findings: Vec<Finding>,
}

impl Findings {
    pub fn load() -> Findings {
        let p = verif_root().join("known_findings.json");
        match std::fs::read(&p) {
            Ok(b) => serde_json::from_slice(&b).unwrap_or_else(|e| {
                eprintln!("harness error: {} does not parse: {e}", p.display());
                std::process::exit(EXIT_HARNESS)
            }),
            Err(_) => Findings::default(),
        }
    }
    /// A *known* (not fixed) finding for this property and cause key.
    pub fn known(&self, property: &str, key: &str) -> Option<&Finding> {
        self.findings.iter().find(|f| f.property == property && f.key == key && f.status == "known")
    }
}

// ---------------------------------------------------------------- evidence

#[derive(Default)]
pub struct Evidence {
    pub property_id: String,
    pub tier: String,
    pub seed: u64,
    pub level: String,
    pub evaluations: u64,
    pub distinct_nontrivial: u64,
    pub rule: String,
    pub samples: Vec<Value>,
    pub exhaustive: bool,
    pub assumptions: Vec<String>,
    pub wall_s: f64,
    pub violations: u64,
    pub extra: BTreeMap<String, Value>,
}

impl Evidence {
    pub fn write(&self) {
        let mut cov = serde_json::Map::new();
        cov.insert("evaluations".into(), json!(self.evaluations));
        cov.insert("distinct_nontrivial".into(), json!(self.distinct_nontrivial));
        cov.insert("rule".into(), json!(self.rule));
        cov.insert("samples".into(), json!(self.samples));
        cov.insert("exhaustive".into(), json!(self.exhaustive));
        for (k, v) in &self.extra {
            cov.insert(k.clone(), v.clone());
        }
        let v = json!({
            "property_id": self.property_id,
            "tier": self.tier,
            "seed": self.seed,
            "level": self.level,
            "coverage": Value::Object(cov),
            "assumptions": self.assumptions,
            "wall_s": (self.wall_s * 1000.0).round() / 1000.0,
            "violations": self.violations,
        });
        let dir = verif_root().join("evidence");
        std::fs::create_dir_all(&dir).expect("mkdir evidence");
        let path = dir.join(format!("{}.json", self.property_id));
        let tmp = dir.join(format!(".{}.json.tmp", self.property_id));
        std::fs::write(&tmp, serde_json::to_vec_pretty(&v).unwrap()).expect("write evidence");
        std::fs::rename(&tmp, &path).expect("rename evidence");
    }
}

pub fn replay_dir() -> PathBuf {
    let d = verif_root().join("replays");
    std::fs::create_dir_all(&d).expect("mkdir replays");
    d
}

pub fn write_json(path: &Path, v: &Value) {
    std::fs::write(path, serde_json::to_vec_pretty(v).unwrap()).expect("write json");
}

pub fn harness_error(msg: &str) -> ! {
    eprintln!("HARNESS-ERROR: {msg}");
    std::process::exit(EXIT_HARNESS)
}
