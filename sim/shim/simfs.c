/*
 * simfs.so -- LD_PRELOAD seam between a build node (lalrpop library / CLI)
 * and the kernel file system.  See DESIGN.md section 2.2 and appendix A.
 *
 * With no VERIF_SIM_PLAN in the environment the shim is a pure pass-through.
 *
 * Plan (one env var, items separated by ';'):
 *   root=<abs dir>          in-world = relative paths, or absolute below root
 *   trace=<abs file>        trace file (outside root), appended with raw writes
 *   hashseed=<n>            getrandom() serves SplitMix64(n); absent => kernel
 *   clock=<secs>            wall clock (clock_gettime REALTIME, gettimeofday, time) starts at <secs>
 *   pid=<n>                 getpid() returns <n>
 *   at=<i>:<kind>[:<arg>]   fault on in-world mutating op number i (0-based)
 *   at=r<j>:<kind>[:<arg>]  fault on in-world read-side op number j (0-based)
 *
 * kinds: kill | killw:<k> | enospc:<k> | eio:<k> | fail:<errno> | short:<k> | eintr
 *
 * No malloc, no stdio, no dlsym: forwarding is by raw syscall.
 */
#define _GNU_SOURCE
#include <errno.h>
#include <fcntl.h>
#include <stdarg.h>
#include <stddef.h>
#include <stdint.h>
#include <string.h>
#include <sys/syscall.h>
#include <sys/types.h>
#include <sys/time.h>
#include <sys/uio.h>
#include <time.h>
#include <unistd.h>

#define MAXFD 1024
#define MAXPATH 768
#define MAXFAULT 32
#define TRACE_FD_MIN 200

enum kind { K_NONE, K_KILL, K_KILLW, K_ENOSPC, K_EIO, K_FAIL, K_SHORT, K_EINTR };

struct fault {
    int is_read;
    long idx;
    enum kind kind;
    long arg;
    int fired;
};

struct fdent {
    int used;      /* in-world descriptor */
    int writable;
    int wrote;     /* at least one write happened */
    int poison;    /* errno to return on further writes, 0 = none */
    char path[MAXPATH];
};

static int g_active = 0;
static char g_root[MAXPATH];
static size_t g_rootlen = 0;
static int g_tracefd = -1;
static int g_have_seed = 0;
static uint64_t g_rng = 0;
static struct fault g_faults[MAXFAULT];
static int g_nfaults = 0;
static long g_mseq = 0; /* next mutating op index */
static long g_rseq = 0; /* next read-side op index */
static int g_disk_full = 0;
static struct fdent g_fds[MAXFD];
static long g_fired = 0;
static long g_getrandom_calls = 0;
static int g_have_clock = 0;
static long g_clock_base = 0;   /* simulated epoch seconds at process start */
static long g_real_base = 0;    /* real epoch seconds at process start */
static long g_fake_pid = 0;

/* ---------- tiny helpers (no libc state) ---------- */

static long raw(long n, long a, long b, long c, long d, long e, long f) {
    return syscall(n, a, b, c, d, e, f);
}

static void die137(void) {
    syscall(SYS_exit_group, 137);
    for (;;) { }
}

static size_t s_len(const char *s) { size_t n = 0; while (s[n]) n++; return n; }

static int s_starts(const char *s, const char *p) {
    while (*p) { if (*s++ != *p++) return 0; }
    return 1;
}

static const char *parse_long(const char *s, long *out) {
    long v = 0; int any = 0, neg = 0;
    if (*s == '-') { neg = 1; s++; }
    while (*s >= '0' && *s <= '9') { v = v * 10 + (*s - '0'); s++; any = 1; }
    if (!any) return NULL;
    *out = neg ? -v : v;
    return s;
}

static const char *parse_u64(const char *s, uint64_t *out) {
    uint64_t v = 0; int any = 0;
    while (*s >= '0' && *s <= '9') { v = v * 10 + (uint64_t)(*s - '0'); s++; any = 1; }
    if (!any) return NULL;
    *out = v;
    return s;
}

struct buf { char b[2048]; size_t n; };

static void b_putc(struct buf *b, char c) { if (b->n < sizeof b->b) b->b[b->n++] = c; }
static void b_puts(struct buf *b, const char *s) { while (*s) b_putc(b, *s++); }
static void b_putl(struct buf *b, long v) {
    char tmp[24]; int i = 0; unsigned long u;
    if (v < 0) { b_putc(b, '-'); u = (unsigned long)(-(v + 1)) + 1UL; } else u = (unsigned long)v;
    do { tmp[i++] = (char)('0' + (u % 10)); u /= 10; } while (u);
    while (i) b_putc(b, tmp[--i]);
}
static void b_putpath(struct buf *b, const char *p) {
    static const char hex[] = "0123456789abcdef";
    if (!p) { b_puts(b, "-"); return; }
    if (!*p) { b_puts(b, "\\e"); return; }
    for (; *p; p++) {
        unsigned char c = (unsigned char)*p;
        if (c <= 0x20 || c >= 0x7f || c == '\\') {
            b_putc(b, '\\'); b_putc(b, 'x'); b_putc(b, hex[c >> 4]); b_putc(b, hex[c & 15]);
        } else b_putc(b, (char)c);
    }
}
static void b_flush(struct buf *b) {
    size_t off = 0;
    if (g_tracefd < 0) return;
    while (off < b->n) {
        long r = raw(SYS_write, g_tracefd, (long)(b->b + off), (long)(b->n - off), 0, 0, 0);
        if (r <= 0) { if (r < 0 && errno == EINTR) continue; break; }
        off += (size_t)r;
    }
}

/* one trace line: <M|R> <seq> <op> <path> <arg> <result> [note] */
static void trace(char cls, long seq, const char *op, const char *path, long arg, long res, const char *note) {
    struct buf b; b.n = 0;
    int saved = errno;
    b_putc(&b, cls); b_putc(&b, ' ');
    b_putl(&b, seq); b_putc(&b, ' ');
    b_puts(&b, op); b_putc(&b, ' ');
    b_putpath(&b, path); b_putc(&b, ' ');
    b_putl(&b, arg); b_putc(&b, ' ');
    b_putl(&b, res);
    if (note) { b_putc(&b, ' '); b_puts(&b, note); }
    b_putc(&b, '\n');
    b_flush(&b);
    errno = saved;
}

static uint64_t splitmix(void) {
    uint64_t z = (g_rng += 0x9E3779B97F4A7C15ULL);
    z = (z ^ (z >> 30)) * 0xBF58476D1CE4E5B9ULL;
    z = (z ^ (z >> 27)) * 0x94D049BB133111EBULL;
    return z ^ (z >> 31);
}

/* ---------- plan ---------- */

static enum kind parse_kind(const char *s, const char **rest) {
    static const struct { const char *n; enum kind k; } names[] = {
        { "killw", K_KILLW }, { "kill", K_KILL }, { "enospc", K_ENOSPC }, { "eio", K_EIO },
        { "fail", K_FAIL }, { "short", K_SHORT }, { "eintr", K_EINTR },
    };
    for (size_t i = 0; i < sizeof names / sizeof names[0]; i++) {
        if (s_starts(s, names[i].n)) {
            const char *e = s + s_len(names[i].n);
            if (*e == ':' || *e == ';' || *e == 0) { *rest = e; return names[i].k; }
        }
    }
    return K_NONE;
}

__attribute__((noreturn)) static void plan_error(const char *what) {
    static const char msg[] = "simfs: bad VERIF_SIM_PLAN: ";
    raw(SYS_write, 2, (long)msg, sizeof msg - 1, 0, 0, 0);
    raw(SYS_write, 2, (long)what, (long)s_len(what), 0, 0, 0);
    raw(SYS_write, 2, (long)"\n", 1, 0, 0, 0);
    syscall(SYS_exit_group, 86); for (;;) { }
}

extern char **environ;

__attribute__((constructor)) static void simfs_init(void) {
    const char *plan = NULL;
    for (char **e = environ; e && *e; e++) {
        if (s_starts(*e, "VERIF_SIM_PLAN=")) { plan = *e + 15; break; }
    }
    if (!plan) return;
    char tracepath[MAXPATH]; tracepath[0] = 0;
    const char *p = plan;
    while (*p) {
        const char *end = p; while (*end && *end != ';') end++;
        size_t len = (size_t)(end - p);
        if (len == 0) { /* skip */ }
        else if (s_starts(p, "root=")) {
            if (len - 5 >= MAXPATH) plan_error("root too long");
            memcpy(g_root, p + 5, len - 5); g_root[len - 5] = 0; g_rootlen = len - 5;
            while (g_rootlen > 1 && g_root[g_rootlen - 1] == '/') g_root[--g_rootlen] = 0;
        } else if (s_starts(p, "trace=")) {
            if (len - 6 >= MAXPATH) plan_error("trace too long");
            memcpy(tracepath, p + 6, len - 6); tracepath[len - 6] = 0;
        } else if (s_starts(p, "hashseed=")) {
            uint64_t v = 0; if (!parse_u64(p + 9, &v)) plan_error("hashseed");
            g_rng = v * 0x9E3779B97F4A7C15ULL + 0x1234567ULL; g_have_seed = 1;
        } else if (s_starts(p, "clock=")) {
            long v; if (!parse_long(p + 6, &v)) plan_error("clock");
            struct timespec ts; raw(SYS_clock_gettime, CLOCK_REALTIME, (long)&ts, 0, 0, 0, 0);
            g_clock_base = v; g_real_base = ts.tv_sec; g_have_clock = 1;
        } else if (s_starts(p, "pid=")) {
            long v; if (!parse_long(p + 4, &v)) plan_error("pid");
            g_fake_pid = v;
        } else if (s_starts(p, "at=")) {
            if (g_nfaults >= MAXFAULT) plan_error("too many faults");
            struct fault *f = &g_faults[g_nfaults];
            const char *q = p + 3;
            f->is_read = 0; f->fired = 0; f->arg = 0;
            if (*q == 'r') { f->is_read = 1; q++; }
            q = parse_long(q, &f->idx);
            if (!q || *q != ':') plan_error("at index");
            q++;
            f->kind = parse_kind(q, &q);
            if (f->kind == K_NONE) plan_error("fault kind");
            if (*q == ':') { q = parse_long(q + 1, &f->arg); if (!q) plan_error("fault arg"); }
            if (q != end) plan_error("trailing junk in fault");
            g_nfaults++;
        } else plan_error("unknown item");
        p = *end ? end + 1 : end;
    }
    if (!g_rootlen || g_root[0] != '/') plan_error("root missing or relative");
    if (tracepath[0]) {
        long fd = raw(SYS_openat, AT_FDCWD, (long)tracepath, O_WRONLY | O_CREAT | O_APPEND | O_CLOEXEC, 0644, 0, 0);
        if (fd < 0) plan_error("cannot open trace");
        long hi = raw(SYS_fcntl, fd, F_DUPFD_CLOEXEC, TRACE_FD_MIN, 0, 0, 0);
        if (hi < 0) plan_error("cannot move trace fd");
        raw(SYS_close, fd, 0, 0, 0, 0, 0);
        g_tracefd = (int)hi;
    }
    g_active = 1;
    trace('S', 0, "start", NULL, g_nfaults, g_have_seed, NULL);
}

__attribute__((destructor)) static void simfs_fini(void) {
    if (!g_active) return;
    /* report faults that were planned but never reached */
    for (int i = 0; i < g_nfaults; i++) {
        if (!g_faults[i].fired) trace('U', g_faults[i].idx, g_faults[i].is_read ? "unfired-r" : "unfired-m", NULL, (long)g_faults[i].kind, 0, NULL);
    }
    trace('E', g_mseq, "end", NULL, g_rseq, g_getrandom_calls, NULL);
}

/* ---------- in-world tests ---------- */

static int path_in_world(const char *path) {
    if (!g_active || !path) return 0;
    if (path[0] != '/') return 1; /* children run with cwd inside the world */
    if (strncmp(path, g_root, g_rootlen) == 0 && (path[g_rootlen] == '/' || path[g_rootlen] == 0)) return 1;
    return 0;
}

static int at_in_world(int dirfd, const char *path) {
    if (!g_active || !path) return 0;
    if (path[0] == '/' || dirfd == AT_FDCWD) return path_in_world(path);
    if (dirfd >= 0 && dirfd < MAXFD && g_fds[dirfd].used) return 1;
    return 0;
}

static struct fdent *fd_ent(int fd) {
    if (!g_active || fd < 0 || fd >= MAXFD) return NULL;
    return g_fds[fd].used ? &g_fds[fd] : NULL;
}

static void fdtab_set(int fd, const char *path, int writable) {
    if (fd < 0 || fd >= MAXFD) return;
    struct fdent *e = &g_fds[fd];
    e->used = 1; e->writable = writable; e->wrote = 0; e->poison = 0;
    size_t n = s_len(path); if (n >= MAXPATH) n = MAXPATH - 1;
    memcpy(e->path, path, n); e->path[n] = 0;
}

static struct fault *fault_for(int is_read, long idx) {
    for (int i = 0; i < g_nfaults; i++) {
        struct fault *f = &g_faults[i];
        if (!f->fired && f->is_read == is_read && f->idx == idx) return f;
    }
    return NULL;
}

static void fire(struct fault *f) { f->fired = 1; g_fired++; }

/*
 * Generic gate for a mutating op that is not a write.  Returns 0 to proceed,
 * or -1 with errno set when a fault makes the call fail.  *seq receives the
 * op index.  EINTR does not consume the index (the retry gets the same one).
 */
static int gate_mut_x(const char *op, const char *path, long arg, long *seq, int eintr_ok) {
    struct fault *f = fault_for(0, g_mseq);
    if (f) {
        switch (f->kind) {
        case K_KILL: case K_KILLW:
            fire(f); trace('M', g_mseq, op, path, arg, -137, "KILL"); die137();
            break;
        case K_EINTR:
            /* only calls that may legally return EINTR (open, ftruncate, fsync); for
             * unlink/mkdir/rename/link/symlink/close the fault is a no-op */
            if (!eintr_ok) { f->fired = 1; break; }
            fire(f); trace('M', g_mseq, op, path, arg, -EINTR, "EINTR"); errno = EINTR; return -1;
        case K_FAIL:
            fire(f); *seq = g_mseq++; trace('M', *seq, op, path, arg, -f->arg, "FAIL"); errno = (int)f->arg; return -1;
        case K_ENOSPC:
            fire(f); g_disk_full = 1; *seq = g_mseq++; trace('M', *seq, op, path, arg, -ENOSPC, "ENOSPC"); errno = ENOSPC; return -1;
        case K_EIO:
            fire(f); *seq = g_mseq++; trace('M', *seq, op, path, arg, -EIO, "EIO"); errno = EIO; return -1;
        case K_SHORT: /* meaningless here: transparent, ignore but count as fired-noop */
            f->fired = 1;
            break;
        default: break;
        }
    }
    *seq = g_mseq++;
    return 0;
}

static int gate_mut(const char *op, const char *path, long arg, long *seq) {
    int eintr_ok = op[0] == 'o' /* open, openat */ || op[0] == 'c' && op[1] == 'r' /* creat */ || op[0] == 'f' /* ftruncate, fsync, fdatasync */ || op[0] == 'p' /* pwrite */;
    return gate_mut_x(op, path, arg, seq, eintr_ok);
}

static long ret_trace(char cls, long seq, const char *op, const char *path, long arg, long r) {
    long res = r < 0 ? -(long)errno : r;
    trace(cls, seq, op, path, arg, res, NULL);
    return r;
}

/* ---------- open family ---------- */

static int open_common(const char *name, int dirfd, const char *path, int flags, mode_t mode) {
    if (!at_in_world(dirfd, path))
        return (int)raw(SYS_openat, dirfd, (long)path, flags, mode, 0, 0);
    int acc = flags & O_ACCMODE;
    int mutating = (acc != O_RDONLY) || (flags & (O_CREAT | O_TRUNC));
#ifdef O_TMPFILE
    if ((flags & O_TMPFILE) == O_TMPFILE) mutating = 1;
#endif
    if (mutating) {
        long seq;
        if (gate_mut(name, path, flags, &seq) < 0) return -1;
        long fd = raw(SYS_openat, dirfd, (long)path, flags, mode, 0, 0);
        if (fd >= 0) fdtab_set((int)fd, path, 1);
        return (int)ret_trace('M', seq, name, path, flags, fd);
    } else {
        struct fault *f = fault_for(1, g_rseq);
        if (f && f->kind == K_EINTR) { fire(f); trace('R', g_rseq, name, path, flags, -EINTR, "EINTR"); errno = EINTR; return -1; }
        if (f && f->kind == K_FAIL) { fire(f); long s = g_rseq++; trace('R', s, name, path, flags, -f->arg, "FAIL"); errno = (int)f->arg; return -1; }
        if (f && (f->kind == K_KILL || f->kind == K_KILLW)) { fire(f); trace('R', g_rseq, name, path, flags, -137, "KILL"); die137(); }
        if (f) f->fired = 1;
        long seq = g_rseq++;
        long fd = raw(SYS_openat, dirfd, (long)path, flags, mode, 0, 0);
        if (fd >= 0 && !(flags & O_DIRECTORY)) fdtab_set((int)fd, path, 0);
        else if (fd >= 0) fdtab_set((int)fd, path, 0);
        return (int)ret_trace('R', seq, name, path, flags, fd);
    }
}

#define OPEN_MODE() mode_t mode = 0; if ((flags & O_CREAT) || ((flags & O_TMPFILE) == O_TMPFILE)) { va_list ap; va_start(ap, flags); mode = va_arg(ap, mode_t); va_end(ap); }

int open(const char *path, int flags, ...) { OPEN_MODE(); return open_common("open", AT_FDCWD, path, flags, mode); }
int open64(const char *path, int flags, ...) { OPEN_MODE(); return open_common("open", AT_FDCWD, path, flags | O_LARGEFILE, mode); }
int openat(int dirfd, const char *path, int flags, ...) { OPEN_MODE(); return open_common("openat", dirfd, path, flags, mode); }
int openat64(int dirfd, const char *path, int flags, ...) { OPEN_MODE(); return open_common("openat", dirfd, path, flags | O_LARGEFILE, mode); }
int creat(const char *path, mode_t mode) { return open_common("creat", AT_FDCWD, path, O_CREAT | O_WRONLY | O_TRUNC, mode); }
int creat64(const char *path, mode_t mode) { return open_common("creat", AT_FDCWD, path, O_CREAT | O_WRONLY | O_TRUNC | O_LARGEFILE, mode); }

int close(int fd) {
    struct fdent *e = fd_ent(fd);
    if (!e) {
        if (g_active && fd == g_tracefd) { errno = EBADF; return -1; } /* protect the trace */
        return (int)raw(SYS_close, fd, 0, 0, 0, 0, 0);
    }
    if (e->writable) {
        long seq;
        char path[MAXPATH]; memcpy(path, e->path, MAXPATH);
        if (gate_mut("close", path, fd, &seq) < 0) {
            if (errno != EINTR) { e->used = 0; raw(SYS_close, fd, 0, 0, 0, 0, 0); } /* fd is gone even when close reports an error */
            else { int sv = errno; e->used = 0; raw(SYS_close, fd, 0, 0, 0, 0, 0); errno = sv; }
            return -1;
        }
        e->used = 0;
        long r = raw(SYS_close, fd, 0, 0, 0, 0, 0);
        return (int)ret_trace('M', seq, "close", path, fd, r);
    }
    e->used = 0;
    return (int)raw(SYS_close, fd, 0, 0, 0, 0, 0);
}

/* ---------- write family ---------- */

static ssize_t full_write(int fd, const char *buf, size_t n) {
    size_t off = 0;
    while (off < n) {
        long r = raw(SYS_write, fd, (long)(buf + off), (long)(n - off), 0, 0, 0);
        if (r < 0) { if (errno == EINTR) continue; return off ? (ssize_t)off : -1; }
        if (r == 0) break;
        off += (size_t)r;
    }
    return (ssize_t)off;
}

static ssize_t write_common(const char *op, int fd, const void *buf, size_t n) {
    struct fdent *e = fd_ent(fd);
    if (!e) return raw(SYS_write, fd, (long)buf, (long)n, 0, 0, 0);
    struct fault *f = fault_for(0, g_mseq);
    if (f) {
        size_t k = f->arg < 0 ? 0 : (size_t)f->arg;
        if (k > n) k = n;
        switch (f->kind) {
        case K_KILL:
            fire(f); trace('M', g_mseq, op, e->path, (long)n, -137, "KILL"); die137(); break;
        case K_KILLW:
            fire(f);
            if (k) full_write(fd, buf, k);
            trace('M', g_mseq, op, e->path, (long)n, (long)k, "KILLW"); die137(); break;
        case K_EINTR:
            fire(f); trace('M', g_mseq, op, e->path, (long)n, -EINTR, "EINTR"); errno = EINTR; return -1;
        case K_FAIL: {
            fire(f); long s = g_mseq++; trace('M', s, op, e->path, (long)n, -f->arg, "FAIL"); errno = (int)f->arg; return -1;
        }
        case K_ENOSPC: case K_EIO: {
            int en = f->kind == K_ENOSPC ? ENOSPC : EIO;
            fire(f);
            if (f->kind == K_ENOSPC) g_disk_full = 1; else e->poison = EIO;
            long s = g_mseq++;
            if (k == 0 || n == 0) { trace('M', s, op, e->path, (long)n, -en, en == ENOSPC ? "ENOSPC" : "EIO"); errno = en; return -1; }
            ssize_t w = full_write(fd, buf, k);
            e->wrote = 1;
            trace('M', s, op, e->path, (long)n, (long)w, en == ENOSPC ? "ENOSPC-short" : "EIO-short");
            return w;
        }
        case K_SHORT: {
            fire(f);
            if (k == 0) k = 1;
            if (k > n) k = n;
            long s = g_mseq++;
            ssize_t w = n ? full_write(fd, buf, k) : 0;
            e->wrote = 1;
            trace('M', s, op, e->path, (long)n, (long)w, "SHORT");
            return w;
        }
        default: break;
        }
    }
    long seq = g_mseq++;
    if (n > 0 && (g_disk_full || e->poison)) {
        int en = g_disk_full ? ENOSPC : e->poison;
        trace('M', seq, op, e->path, (long)n, -en, "STICKY");
        errno = en; return -1;
    }
    long r = raw(SYS_write, fd, (long)buf, (long)n, 0, 0, 0);
    if (r > 0) e->wrote = 1;
    return ret_trace('M', seq, op, e->path, (long)n, r);
}

ssize_t write(int fd, const void *buf, size_t n) { return write_common("write", fd, buf, n); }

ssize_t writev(int fd, const struct iovec *iov, int cnt) {
    struct fdent *e = fd_ent(fd);
    if (!e) return raw(SYS_writev, fd, (long)iov, cnt, 0, 0, 0);
    /* serialise: treat as a write of the first non-empty segment (a legal short writev) */
    for (int i = 0; i < cnt; i++) if (iov[i].iov_len) return write_common("writev", fd, iov[i].iov_base, iov[i].iov_len);
    return write_common("writev", fd, "", 0);
}

static ssize_t pwrite_common(int fd, const void *buf, size_t n, off_t off) {
    struct fdent *e = fd_ent(fd);
    if (!e) return raw(SYS_pwrite64, fd, (long)buf, (long)n, off, 0, 0);
    long seq;
    if (gate_mut("pwrite", e->path, (long)n, &seq) < 0) return -1;
    long r = raw(SYS_pwrite64, fd, (long)buf, (long)n, off, 0, 0);
    if (r > 0) e->wrote = 1;
    return ret_trace('M', seq, "pwrite", e->path, (long)n, r);
}
ssize_t pwrite(int fd, const void *buf, size_t n, off_t off) { return pwrite_common(fd, buf, n, off); }
ssize_t pwrite64(int fd, const void *buf, size_t n, off_t off) { return pwrite_common(fd, buf, n, off); }

/* ---------- read family ---------- */

ssize_t read(int fd, void *buf, size_t n) {
    struct fdent *e = fd_ent(fd);
    if (!e) return raw(SYS_read, fd, (long)buf, (long)n, 0, 0, 0);
    struct fault *f = fault_for(1, g_rseq);
    if (f) {
        switch (f->kind) {
        case K_EINTR: fire(f); trace('R', g_rseq, "read", e->path, (long)n, -EINTR, "EINTR"); errno = EINTR; return -1;
        case K_FAIL: { fire(f); long s = g_rseq++; trace('R', s, "read", e->path, (long)n, -f->arg, "FAIL"); errno = (int)f->arg; return -1; }
        case K_EIO: { fire(f); long s = g_rseq++; trace('R', s, "read", e->path, (long)n, -EIO, "EIO"); errno = EIO; return -1; }
        case K_KILL: case K_KILLW: fire(f); trace('R', g_rseq, "read", e->path, (long)n, -137, "KILL"); die137(); break;
        case K_SHORT: {
            fire(f);
            size_t k = f->arg <= 0 ? 1 : (size_t)f->arg; if (k > n) k = n;
            long s = g_rseq++;
            long r = raw(SYS_read, fd, (long)buf, (long)k, 0, 0, 0);
            long res = r < 0 ? -(long)errno : r;
            trace('R', s, "read", e->path, (long)n, res, "SHORT");
            return r;
        }
        default: f->fired = 1; break;
        }
    }
    long seq = g_rseq++;
    long r = raw(SYS_read, fd, (long)buf, (long)n, 0, 0, 0);
    return ret_trace('R', seq, "read", e->path, (long)n, r);
}

/* ---------- namespace ops ---------- */

static int unlink_common(const char *name, int dirfd, const char *path, int flags) {
    if (!at_in_world(dirfd, path)) return (int)raw(SYS_unlinkat, dirfd, (long)path, flags, 0, 0, 0);
    long seq;
    if (gate_mut(name, path, flags, &seq) < 0) return -1;
    long r = raw(SYS_unlinkat, dirfd, (long)path, flags, 0, 0, 0);
    return (int)ret_trace('M', seq, name, path, flags, r);
}
int unlink(const char *path) { return unlink_common("unlink", AT_FDCWD, path, 0); }
int rmdir(const char *path) { return unlink_common("rmdir", AT_FDCWD, path, AT_REMOVEDIR); }
int unlinkat(int dirfd, const char *path, int flags) { return unlink_common((flags & AT_REMOVEDIR) ? "rmdir" : "unlink", dirfd, path, flags); }

static int mkdir_common(int dirfd, const char *path, mode_t mode) {
    if (!at_in_world(dirfd, path)) return (int)raw(SYS_mkdirat, dirfd, (long)path, mode, 0, 0, 0);
    long seq;
    if (gate_mut("mkdir", path, mode, &seq) < 0) return -1;
    long r = raw(SYS_mkdirat, dirfd, (long)path, mode, 0, 0, 0);
    return (int)ret_trace('M', seq, "mkdir", path, mode, r);
}
int mkdir(const char *path, mode_t mode) { return mkdir_common(AT_FDCWD, path, mode); }
int mkdirat(int dirfd, const char *path, mode_t mode) { return mkdir_common(dirfd, path, mode); }

static int rename_common(int od, const char *op, int nd, const char *np, unsigned flags) {
    int iw = at_in_world(od, op) || at_in_world(nd, np);
    if (!iw) return (int)raw(SYS_renameat2, od, (long)op, nd, (long)np, flags, 0);
    long seq;
    /* two trace lines share one op index: "rename-from" carries the source */
    trace('M', g_mseq, "rename-from", op, 0, 0, NULL);
    if (gate_mut("rename", np, 0, &seq) < 0) return -1;
    long r = raw(SYS_renameat2, od, (long)op, nd, (long)np, flags, 0);
    return (int)ret_trace('M', seq, "rename", np, 0, r);
}
int rename(const char *o, const char *n) { return rename_common(AT_FDCWD, o, AT_FDCWD, n, 0); }
int renameat(int od, const char *o, int nd, const char *n) { return rename_common(od, o, nd, n, 0); }
int renameat2(int od, const char *o, int nd, const char *n, unsigned flags) { return rename_common(od, o, nd, n, flags); }

static int link_common(int od, const char *op, int nd, const char *np, int flags) {
    if (!at_in_world(nd, np)) return (int)raw(SYS_linkat, od, (long)op, nd, (long)np, flags, 0);
    long seq;
    if (gate_mut("link", np, 0, &seq) < 0) return -1;
    long r = raw(SYS_linkat, od, (long)op, nd, (long)np, flags, 0);
    return (int)ret_trace('M', seq, "link", np, 0, r);
}
int link(const char *o, const char *n) { return link_common(AT_FDCWD, o, AT_FDCWD, n, 0); }
int linkat(int od, const char *o, int nd, const char *n, int flags) { return link_common(od, o, nd, n, flags); }

static int symlink_common(const char *target, int nd, const char *np) {
    if (!at_in_world(nd, np)) return (int)raw(SYS_symlinkat, (long)target, nd, (long)np, 0, 0, 0);
    long seq;
    if (gate_mut("symlink", np, 0, &seq) < 0) return -1;
    long r = raw(SYS_symlinkat, (long)target, nd, (long)np, 0, 0, 0);
    return (int)ret_trace('M', seq, "symlink", np, 0, r);
}
int symlink(const char *t, const char *n) { return symlink_common(t, AT_FDCWD, n); }
int symlinkat(const char *t, int nd, const char *n) { return symlink_common(t, nd, n); }

static int ftruncate_common(int fd, off_t len) {
    struct fdent *e = fd_ent(fd);
    if (!e) return (int)raw(SYS_ftruncate, fd, len, 0, 0, 0, 0);
    long seq;
    if (gate_mut("ftruncate", e->path, (long)len, &seq) < 0) return -1;
    long r = raw(SYS_ftruncate, fd, len, 0, 0, 0, 0);
    return (int)ret_trace('M', seq, "ftruncate", e->path, (long)len, r);
}
int ftruncate(int fd, off_t len) { return ftruncate_common(fd, len); }
int ftruncate64(int fd, off_t len) { return ftruncate_common(fd, len); }

int truncate(const char *path, off_t len) {
    if (!path_in_world(path)) return (int)raw(SYS_truncate, (long)path, len, 0, 0, 0, 0);
    long seq;
    if (gate_mut("truncate", path, (long)len, &seq) < 0) return -1;
    long r = raw(SYS_truncate, (long)path, len, 0, 0, 0, 0);
    return (int)ret_trace('M', seq, "truncate", path, (long)len, r);
}
int truncate64(const char *path, off_t len) { return truncate(path, len); }

static int sync_common(const char *name, long nr, int fd) {
    struct fdent *e = fd_ent(fd);
    if (!e) return (int)raw(nr, fd, 0, 0, 0, 0, 0);
    long seq;
    if (gate_mut(name, e->path, fd, &seq) < 0) return -1;
    long r = raw(nr, fd, 0, 0, 0, 0, 0);
    return (int)ret_trace('M', seq, name, e->path, fd, r);
}
int fsync(int fd) { return sync_common("fsync", SYS_fsync, fd); }
int fdatasync(int fd) { return sync_common("fdatasync", SYS_fdatasync, fd); }

/* Bulk-copy calls would bypass write(): refuse them for in-world descriptors so
 * that std falls back to read/write loops (std handles ENOSYS/EXDEV/EINVAL). */
ssize_t copy_file_range(int fi, off64_t *oi, int fo, off64_t *oo, size_t len, unsigned flags) {
    if (fd_ent(fi) || fd_ent(fo)) { trace('X', 0, "copy_file_range", NULL, fi, fo, "refused"); errno = ENOSYS; return -1; }
    return raw(SYS_copy_file_range, fi, (long)oi, fo, (long)oo, (long)len, flags);
}
ssize_t sendfile(int out, int in, off_t *off, size_t n) {
    if (fd_ent(in) || fd_ent(out)) { trace('X', 0, "sendfile", NULL, in, out, "refused"); errno = EINVAL; return -1; }
    return raw(SYS_sendfile, out, in, (long)off, (long)n, 0, 0);
}
ssize_t sendfile64(int out, int in, off64_t *off, size_t n) { return sendfile(out, in, (off_t *)off, n); }
ssize_t splice(int fi, off64_t *oi, int fo, off64_t *oo, size_t len, unsigned flags) {
    if (fd_ent(fi) || fd_ent(fo)) { trace('X', 0, "splice", NULL, fi, fo, "refused"); errno = EINVAL; return -1; }
    return raw(SYS_splice, fi, (long)oi, fo, (long)oo, (long)len, flags);
}

/* ---------- randomness ---------- */

ssize_t getrandom(void *buf, size_t n, unsigned flags) {
    if (!g_active || !g_have_seed) return raw(SYS_getrandom, (long)buf, (long)n, flags, 0, 0, 0);
    unsigned char *p = buf;
    size_t i = 0;
    g_getrandom_calls++;
    while (i < n) {
        uint64_t v = splitmix();
        for (int j = 0; j < 8 && i < n; j++, i++) p[i] = (unsigned char)(v >> (8 * j));
    }
    return (ssize_t)n;
}

/* ---------- clock and process identity ---------- */

int clock_gettime(clockid_t id, struct timespec *ts) {
    long r = raw(SYS_clock_gettime, id, (long)ts, 0, 0, 0, 0);
    if (r == 0 && g_active && g_have_clock && id == CLOCK_REALTIME && ts) ts->tv_sec = ts->tv_sec - g_real_base + g_clock_base;
    return (int)r;
}

int gettimeofday(struct timeval *tv, void *tz) {
    long r = raw(SYS_gettimeofday, (long)tv, (long)tz, 0, 0, 0, 0);
    if (r == 0 && g_active && g_have_clock && tv) tv->tv_sec = tv->tv_sec - g_real_base + g_clock_base;
    return (int)r;
}

time_t time(time_t *out) {
    struct timespec ts;
    clock_gettime(CLOCK_REALTIME, &ts);
    if (out) *out = ts.tv_sec;
    return ts.tv_sec;
}

pid_t getpid(void) {
    if (g_active && g_fake_pid) return (pid_t)g_fake_pid;
    return (pid_t)raw(SYS_getpid, 0, 0, 0, 0, 0, 0);
}
