#!/usr/bin/env python3
"""Regenerate /verif/MANIFEST.json from the tables below (kept in one place so
that the not_applicable list and the checks can never drift apart)."""
import json, os
HERE = os.path.dirname(os.path.dirname(os.path.abspath(__file__)))

NA = {
"C01":"pure function (grammar, token sequence) -> accept/reject; no schedule, fault, crash or history in the statement; needs a CFG membership oracle over generated inputs (property-based testing, a different family)",
"C02":"pure function of grammar and input (result = actions over the derivation); nothing to schedule or fault",
"C03":"pure function of the grammar and the algorithm switch (conflict reported iff automaton has one)",
"C05":"pure: validity of `expected` lists needs a viable-prefix oracle over generated inputs, no fault or schedule involved",
"C06":"pure function of grammar and token spans (location tracking)",
"C07":"pure differential claim between two code generators over inputs; no nondeterminism to own",
"C08":"quantifies over inputs and regex terminals only; no fault in the statement (panics/hangs seen during C17/C04 runs are reported there)",
"C09":"pure function (terminal set, string) -> tokens",
"C10":"pure function: each terminal matches its own language",
"C11":"pure function of the terminal set (ambiguity reported iff overlap)",
"C12":"pure grammar transformation (precedence/associativity expansion)",
"C13":"pure grammar transformation (macro/repetition/conditional expansion)",
"C14":"pure grammar transformation (inlining)",
"C15":"pure function of (grammar, feature set); the CARGO_FEATURE_* lookup is fixed once the environment is fixed, no history or fault",
"C16":"error recovery tree well-formedness: inserted/deleted tokens are input data and the oracle is structural; pure",
"C18":"pure function of the grammar bytes (never panics) - fuzzing territory, no fault/schedule",
"C19":"statement about rustc's verdict on generated text; pure",
"C24":"pure function of (grammar, formatting flags)",
"C25":"pure metamorphic claim over grammar texts (hygiene under renaming)",
"C26":"pure metamorphic claim over grammar texts (layout insignificance)",
"C28":"pure functions over small domains (ParseError helpers)",
}
PENDING = {
}

TB_A = "trusted: the LD_PRELOAD shim sees every in-world mutating libc call (audited against strace), tmpfs semantics, lalrpop itself as the *content* oracle (forced build in a clean world), the reference path/discovery model written from the property statement; sampling gives evidence, not proof"

TB_B = "trusted: the corpus renderer/sampler (same GrammarSpec data drives both), the event log kept by user-code actions and token streams, determinism of an LR parse before a fault fires; grammars and inputs are a finite seeded corpus"

CHECKS = [
 dict(property_id="C17", quick_cmd="./check C17 quick", thorough_cmd="./check C17 thorough",
      evidence_file="evidence/C17.json", replay_cmd_template="./check C17 replay {path}", engine="parsesim",
      level_claimed=dict(category="fault_enumeration",
        text="For every compiled corpus parser (30 hand-written + 16 generated grammar specs x table / recursive-ascent / LALR / with and without Location / built-in lexer = 156 parsers; specs cover `!` recovery at several depths, inlined and unit-typed fallible actions, EBNF suffixes, nullable start symbols, merged-lookahead empty productions, regex terminals incl. an empty-matching one) and every sampled input, EVERY token pull of the fault-free history is turned into a stream error, EVERY executed fallible action (inlined ones and the start reduction included) is made to fail, pairs of both are sampled, the injected action error is any ParseError variant an action may return (User, UnrecognizedEof with empty/non-empty expected, InvalidToken), and unmatchable text (a control byte, a multi-byte character, a proper prefix of a longer terminal) is spliced at every token boundary of built-in-lexer inputs; the faulted history must be the fault-free history up to the fault, the fault, and exactly that error - no further pull, no further action, also inside error recovery.",
        design_ref="DESIGN.md section 4 (C17), section 3"),
      level_note=TB_B,
      technique="deterministic simulation with fault injection: exhaustive fault-position enumeration per input over token streams and fallible actions, prefix-refinement oracle against the fault-free history"),
 dict(property_id="C04", quick_cmd="./check C04 quick", thorough_cmd="./check C04 thorough",
      evidence_file="evidence/C04.json", replay_cmd_template="./check C04 replay {path}", engine="parsesim",
      level_claimed=dict(category="fault_enumeration",
        text="END-OF-STREAM CLAUSE ONLY: the token stream is cut after every k < n tokens of every sampled sentence of every recovery-free corpus parser; the result must be Ok or UnrecognizedEof at the end of token k (the location type's default for k = 0, incl. a location struct whose Default is not a plausible position), never UnrecognizedToken/ExtraToken, exactly k+1 pulls and none after the end, all back ends of a grammar agree, prefixes that are themselves sampled sentences are accepted, and for the built-in lexer white space (incl. CR LF) around the tokens moves neither result nor location.",
        design_ref="DESIGN.md section 4 (C04)"),
      level_note=TB_B + "; the rest of C04 (where the first non-viable token of an arbitrary rejected input lies, `expected` lists) needs a viable-prefix oracle over generated inputs and is NOT claimed",
      technique="deterministic simulation with fault injection: stream truncation at every position of sampled sentences"),
 dict(property_id="C27", quick_cmd="./check C27 quick", thorough_cmd="./check C27 thorough",
      evidence_file="evidence/C27.json", replay_cmd_template="./check C27 replay {path}", engine="parsesim",
      level_claimed=dict(category="exploration",
        text="A parser value shared through an Arc by 2-4 shuttle-scheduled threads (seeded random and PCT depth-3 schedulers; every token pull and action body is a scheduling point), with re-entrant parses from inside actions, two different parser values used alternately and sequential reuse afterwards; every batch runs in a child process under a watchdog, and two real-thread probes (re-entrant; 4 threads stress, longer for `!` grammars) run always; each result and event history must equal that of a fresh parser on that input alone. Compile-time Send+Sync assertions for every corpus parser; the thorough tier adds Miri's seeded pre-emptive scheduler over real std threads for data races and UB.",
        design_ref="DESIGN.md section 4 (C27)"),
      level_note=TB_B + "; shuttle cannot see instruction-level races (Miri covers a small sample of seeds); schedules are sampled, not enumerated",
      technique="deterministic simulation: seeded schedule exploration (shuttle random + PCT) with replayable schedule files, Miri many-seeds in the thorough tier"),
 dict(property_id="C20", quick_cmd="./check C20 quick", thorough_cmd="./check C20 thorough",
      evidence_file="evidence/C20.json", replay_cmd_template="./check C20 replay {path}", engine="buildsim",
      level_claimed=dict(category="exploration",
        text="The simulator owns every source of nondeterminism a generation run can meet: hash keys (getrandom interposed, so every HashMap of lalrpop and its dependencies is re-keyed per run), batch composition (2-17 files) and processing order, in-process history (incl. files that failed earlier), file names, directories, path spellings and working directory, creation order, heap-address shift, environment (random and well-known variables), wall clock and pid (interposed), temporary directory. For every pool grammar (incl. invalid and type-cycle texts) the bytes written and the success of the call must equal a forced build of the text alone under hash seed 0. The canary HashSet order counts distinct hash worlds reached.",
        design_ref="DESIGN.md section 4 (C20)"),
      level_note=TB_A + "; determinism is checked over a fixed grammar pool, not over all grammars",
      technique="deterministic simulation: seeded hash-key / batch / order / address perturbation, outputs compared with the fault-free reference"),
 dict(property_id="C23", quick_cmd="./check C23 quick", thorough_cmd="./check C23 thorough",
      evidence_file="evidence/C23.json", replay_cmd_template="./check C23 replay {path}", engine="buildsim",
      level_claimed=dict(category="exploration",
        text="Seeded directory worlds (nesting, `src` components in several positions, adversarial file and directory names, links to files/directories inside and outside the root, dangling links, shuffled creation order) crossed with 13 configuration families (every public entry point incl. the CLI, in_dir spellings, OUT_DIR vs out_dir, in_dir conflicts, rerun directives) and a second build after tree changes. An independent discovery + path model written from the statement says which files are processed and where outputs belong; the shim trace gives the set of paths actually mutated.",
        design_ref="DESIGN.md section 4 (C23)"),
      level_note=TB_A + "; symlink cycles, non-UTF-8 names and output collisions are not generated; one known finding (dots-only stem) is listed in known_findings.json",
      technique="deterministic simulation: seeded file-system worlds and histories against a reference path model, libc-level mutation trace as the recorded history"),
 dict(property_id="C21", quick_cmd="./check C21 quick", thorough_cmd="./check C21 thorough",
      evidence_file="evidence/C21.json", replay_cmd_template="./check C21 replay {path}", engine="buildsim",
      level_claimed=dict(category="exploration",
        text="Seeded histories (4-25 ops over 1-5 grammars, four entry-point layouts incl. the real CLI) of grammar edits (comment, white space, CR LF, tab, appended rule), reverts, touches, mtime changes, output deletion, foreign files at output paths, version/hash header damage (digit flips, truncation, case, appended text, non-UTF-8 bytes), error introduction/removal (syntax, unresolved symbol, conflict, non-UTF-8, empty, BOM, NUL, a text that makes the generator die) and non-forced/forced builds, some of them by a long-lived process that reuses one Configuration while the grammar changes under it; after every build a reference model demands byte-identity with a forced build, no output for failed grammars, untouched current outputs (no mutating libc call on the path, same inode and mtime) and Ok iff nothing failed. Half of the runs add transparent faults (short reads/writes, EINTR) that must change nothing.",
        design_ref="DESIGN.md section 4 (C21)"),
      level_note=TB_A + "; white-space-only header edits, output collisions and body edits under an intact header are outside the stated contract and not generated",
      technique="deterministic simulation: seeded operation histories against a reference model, transparent fault injection (short I/O, EINTR) at the libc boundary"),
 dict(property_id="C22", quick_cmd="./check C22 quick", thorough_cmd="./check C22 thorough",
      evidence_file="evidence/C22.json", replay_cmd_template="./check C22 replay {path}", engine="buildsim",
      level_claimed=dict(category="fault_enumeration",
        text="Every mutating libc call of a build (unlink/mkdir/create/write/rename/close) is a crash point, every byte offset of every write a torn-write / ENOSPC / EIO point, enumerated from a fault-free dry run for a set of base scenarios (layouts x pre-states x flags, with and without report); after each fault a clean non-forced build must return Ok and leave output byte-identical to a forced build. Plus seeded sequences of 1-3 faulted builds with grammar edits in between. Exhaustive per base scenario in the thorough tier for small grammars.",
        design_ref="DESIGN.md section 4 (C22), section 2"),
      level_note=TB_A + "; power loss / un-fsynced data are outside C22 and not simulated",
      technique="deterministic simulation with fault injection: crash/torn-write/ENOSPC enumeration at the libc boundary, recovery build compared with forced build"),
]

m = {
 "version":1,
 "setup_cmd":"./check setup",
 "hooks":{"guard":"none","enable":"no source hooks: seams are the libc symbol boundary (LD_PRELOAD shim sim/shim/simfs.so) and user code of generated parsers; checks rebuild /repo/lalrpop as a cargo path dependency",
          "baseline_off_cmd":"cd /repo && cargo test --workspace --no-fail-fast --offline","source_commits":[],"add_only":True},
 "engines":[
   {"name":"parsesim","path":"sim/parsesim","serves_properties":["C04","C17","C27"],"kind_free_text":"parser stream/thread simulator: build.rs renders a GrammarSpec corpus and compiles it with the working tree's lalrpop; fault-injecting token iterators and fault-planned actions logging an event history; shuttle owns thread schedules"},
   {"name":"buildsim","path":"sim/buildsim","serves_properties":["C20","C21","C22","C23"],"kind_free_text":"build-world simulator: seeded op lists over a private tmpfs world, process-per-node, LD_PRELOAD fault shim (crash, torn/short/failing writes, failing calls, EINTR, seeded getrandom), reference model + forced-build oracle, minimiser and replay files"},
 ],
 "checks":CHECKS,
 "notes":"see DESIGN.md; known_findings.json lists fixed/known defects; replays/ holds replay files written at run time",
 "not_applicable":[{"property_id":k,"reason":v} for k,v in sorted({**NA, **{k:v for k,v in PENDING.items() if k not in {c['property_id'] for c in CHECKS}}}.items())],
}
json.dump(m, open(os.path.join(HERE,"MANIFEST.json"),"w"), indent=1)
print("wrote MANIFEST.json with", len(CHECKS), "checks")
