#!/usr/bin/env python3
"""tools/import_seed.py <seed-dir> <id> <property> <needs> <detected_by> [confirm-line]
copy a confirmed seeded change into /verif/seeded/<id>/ with meta.json"""
import json, os, shutil, sys
src, sid, prop, needs, detected = sys.argv[1:6]
confirm = sys.argv[6] if len(sys.argv) > 6 else ""
dst = os.path.join("/verif/seeded", sid)
if os.path.exists(dst):
    shutil.rmtree(dst)
os.makedirs(dst)
shutil.copy(os.path.join(src, "patch.diff"), dst)
if os.path.isdir(os.path.join(src, "demo")):
    shutil.copytree(os.path.join(src, "demo"), os.path.join(dst, "demo"), ignore=shutil.ignore_patterns("target", "*.o", "*.so", "Cargo.lock.bak"))
if os.path.exists(os.path.join(src, "notes.md")):
    shutil.copy(os.path.join(src, "notes.md"), dst)
meta = {
    "id": sid,
    "property": prop,
    "breaks": prop,
    "needs_to_manifest": needs,
    "origin": "written by an independent sub-agent that saw only the property text and a scratch worktree",
    "confirmed_in_scratch_worktree": confirm,
    "what_was_run": [
        "tools/confirm_seed.sh <dir>: demo/run.sh on HEAD (must exit 0), git apply patch.diff, cargo test --workspace --no-fail-fast --offline [--lib --bins --tests for the later ones: the 349 pinned tests contain no doc-test] (must pass, 349 tests), demo/run.sh with the patch (must exit non-zero)",
        "tools/try_patch.sh <dir>/patch.diff quick " + prop + ": git -C /repo apply, ./check " + prop + " quick, git -C /repo checkout -- .",
    ],
    "detected_by": detected,
}
json.dump(meta, open(os.path.join(dst, "meta.json"), "w"), indent=1)
print("imported", dst)
