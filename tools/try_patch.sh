#!/bin/bash
# tools/try_patch.sh <patch.diff> <tier> <PROP>...   apply a patch to /repo, run the checks, always revert.
# prints one line per property: <patch> <PROP> exit=<code> [first VIOLATION/KNOWN line]
set -u
patch="$1"; tier="$2"; shift 2
cd /repo || exit 2
if ! git diff --quiet; then echo "refusing: /repo has uncommitted changes"; exit 2; fi
if ! git apply --check "$patch" 2>/dev/null; then echo "$(basename "$(dirname "$patch")")/$(basename "$patch") does not apply"; exit 3; fi
git apply "$patch"
trap 'git -C /repo checkout -- . ; git -C /repo clean -fdq -- lalrpop lalrpop-util 2>/dev/null' EXIT
for p in "$@"; do
  # the evidence file of a mutant run must not replace the committed one
  cp -f "/verif/evidence/$p.json" "/verif/evidence/.$p.json.keep" 2>/dev/null
  out="$(cd /verif && ./check "$p" "$tier" 2>&1)"; rc=$?
  [ -f "/verif/evidence/.$p.json.keep" ] && mv -f "/verif/evidence/.$p.json.keep" "/verif/evidence/$p.json"
  first="$(echo "$out" | grep -E "^VIOLATION|HARNESS-ERROR|^error" | head -1)"
  key="$(echo "$out" | grep -E "^  (invariant=.* )?key=" | head -3 | tr '\n' ' ')"
  n="$(echo "$out" | grep -c "^VIOLATION")"
  echo "RESULT patch=$patch prop=$p exit=$rc violations=$n $first $key"
  if [ $rc -eq 2 ]; then echo "$out" | tail -15; fi
done
