#!/bin/bash
# tools/adopt_seed.sh <worktree> <PROP> <slug> "<needs>"
# Confirms a sub-agent's change left in <worktree>/_seed (patch.diff, demo/run.sh, notes.md) in that same
# scratch worktree (demo passes on HEAD, pinned suite passes with the patch, demo fails with the patch),
# and only then copies it to /verif/seeded/<PROP>-<n>-<slug>/ with a meta.json. Does not touch /repo.
set -u
wt="$1"; prop="$2"; slug="$3"; needs="$4"
cd /verif || exit 2
[ -s "$wt/_seed/patch.diff" ] && [ -f "$wt/_seed/demo/run.sh" ] || { echo "no deliverables in $wt/_seed"; exit 2; }
line="$(WT="$wt" tools/confirm_seed.sh "$wt/_seed")"
echo "$line"
case "$line" in
  *"demo_on_head=0 tests_exit=0 "*"demo_with_patch=0") echo "NOT CONFIRMED (demo does not fail)"; exit 1 ;;
  *"demo_on_head=0 tests_exit=0 "*) ;;
  *) echo "NOT CONFIRMED"; exit 1 ;;
esac
n=1; while ls -d "seeded/$prop-$n-"* >/dev/null 2>&1; do n=$((n+1)); done
id="$prop-$n-$slug"; d="seeded/$id"
mkdir -p "$d"
cp "$wt/_seed/patch.diff" "$d/patch.diff"
cp -r "$wt/_seed/demo" "$d/demo"
find "$d/demo" -name target -type d -prune -exec rm -rf {} +
[ -f "$wt/_seed/notes.md" ] && cp "$wt/_seed/notes.md" "$d/notes.md"
python3 - "$d" "$id" "$prop" "$needs" "$line" <<'EOF'
import json,sys
d,id_,prop,needs,line=sys.argv[1:6]
json.dump({
 "id": id_, "property": prop, "breaks": prop, "needs_to_manifest": needs,
 "origin": "written by an independent sub-agent (round 4) that saw only the property text and a scratch worktree",
 "confirmed_in_scratch_worktree": line,
 "what_was_run": [
  "tools/confirm_seed.sh <dir>: demo/run.sh on HEAD (must exit 0), git apply patch.diff, cargo test --workspace --no-fail-fast --offline --lib --bins --tests (must pass, 349 tests), demo/run.sh with the patch (must exit non-zero)",
  "tools/try_patch.sh <dir>/patch.diff quick %s: git -C /repo apply, ./check %s quick, git -C /repo checkout -- ." % (prop,prop)
 ],
 "detected_by": "TBD"
}, open(d+"/meta.json","w"), indent=1)
EOF
echo "ADOPTED $d"
