#!/usr/bin/env python3
"""import every seed whose CONFIRM line says: demo ok on HEAD, suite passes with patch, demo fails with patch"""
import re, subprocess, sys, glob
sys.path.insert(0, "/verif/tools")
from seed_table import T
lines = []
for f in glob.glob("/tmp/confirm-*.out"):
    lines += open(f).read().splitlines()
conf = {}
for l in lines:
    m = re.match(r"CONFIRM /tmp/seed-(C\d+[bc]?)/(\d): demo_on_head=(\d+) tests_exit=(\d+) tests_passed=(\d*) demo_with_patch=(\d+)", l)
    if m:
        conf[f"{m.group(1)}/{m.group(2)}"] = (l, m.group(3) == "0" and m.group(4) == "0" and m.group(6) != "0")
n = 0
for (d, sid, prop, needs, det) in T:
    if d in conf and conf[d][1]:
        subprocess.run(["/verif/tools/import_seed.py", f"/tmp/seed-{d}", sid, prop, needs, det, conf[d][0]], check=True)
        n += 1
    else:
        print("not (yet) confirmed:", d, conf.get(d))
print(n, "imported")
