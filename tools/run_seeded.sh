#!/bin/bash
# tools/run_seeded.sh [tier]   regression test of the machinery itself: every kept seeded change and every
# own sensitivity patch is applied to /repo in turn, the check of its property must exit 1, /repo is reverted.
tier="${1:-quick}"
cd /verif || exit 2
ok=0; bad=0
run() { # patch prop
  out="$(tools/try_patch.sh "$1" "$tier" "$2" 2>&1 | grep -E '^RESULT|does not apply|refusing')"
  rc="$(echo "$out" | sed -n 's/.* exit=\([0-9]*\).*/\1/p' | head -1)"
  if [ "$rc" = 1 ]; then ok=$((ok+1)); echo "caught   $2 $1"; else bad=$((bad+1)); echo "MISSED   $2 $1 :: $out"; fi
}
for d in seeded/*/; do
  prop="$(python3 -c "import json,sys; print(json.load(open('$d/meta.json'))['property'])")"
  run "/verif/${d}patch.diff" "$prop"
done
while read -r m prop; do run "/verif/sensitivity/$m.diff" "$prop"; done <<'LIST'
m02_rename_before_body C22
m03_no_remove_old_file C21
m04_write_instead_of_write_all C22
m05_and_instead_of_or C21
m06_hash_prefix_only C21
m07_mtime_shortcut C21
m08_no_version_check C21
m10_strip_src_anywhere C23
m11_suffix_instead_of_extension C23
m12_no_follow_links C23
m13_dangling_error_in_subdirs C23
m14_whitespace_in_any_component C23
m15_directive_before_whitespace_check C23
m18_stream_error_as_eof C17
m19_error_during_recovery_swallowed C17
m22_last_location_token_start C04
m23_action_error_in_recovery_ignored C17
m24_lexer_offset_in_static C27
m25_lock_held_during_parse C27
m26_cell_makes_parser_not_sync C27
m27_timestamp_in_output C20
m28_deep_path_in_output C20
m29_source_date_epoch_in_output C20
m30_pid_dependent_output C20
m31_empty_input_always_eof_error C04
LIST
echo "SUMMARY caught=$ok missed=$bad tier=$tier"
