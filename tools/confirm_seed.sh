#!/bin/bash
# tools/confirm_seed.sh <seed-dir> [quick]   confirm a seeded change in the scratch worktree /tmp/wt-own:
#  demo passes on HEAD, patch applies and compiles, test suite passes with it, demo fails with it.
set -u
d="$1"; wt="${WT:-/tmp/wt-own}"
cd "$wt" || exit 2
git checkout -q -- . ; git clean -fdq -- lalrpop lalrpop-util lalrpop-test doc 2>/dev/null
log="$d/confirm.log"; : > "$log"
echo "== demo on HEAD" >> "$log"
( bash "$d/demo/run.sh" "$wt" ) >> "$log" 2>&1; base=$?
git checkout -q -- . ; git clean -fdq -- lalrpop lalrpop-util lalrpop-test doc 2>/dev/null
if ! git apply "$d/patch.diff" 2>>"$log"; then echo "CONFIRM $d: patch does not apply"; exit 1; fi
echo "== test suite with patch" >> "$log"
if [ "${2:-full}" = quick ]; then tcmd="cargo test -p lalrpop -p lalrpop-util --offline"; else tcmd="cargo test --workspace --no-fail-fast --offline --lib --bins --tests"; fi
( CARGO_NET_OFFLINE=true $tcmd ) >> "$log" 2>&1; trc=$?
npass=$(grep -E "^test result: ok" "$log" | sed -E 's/.*ok\. ([0-9]+) passed.*/\1/' | paste -sd+ | bc)
echo "== demo with patch" >> "$log"
( bash "$d/demo/run.sh" "$wt" ) >> "$log" 2>&1; with=$?
git checkout -q -- . ; git clean -fdq -- lalrpop lalrpop-util lalrpop-test doc 2>/dev/null
echo "CONFIRM $d: demo_on_head=$base tests_exit=$trc tests_passed=$npass demo_with_patch=$with"
